#!/bin/sh
# usage: tools/seeded_recheck.sh <stored id> <check ids...>
# Re-creates a scratch worktree of /repo HEAD (outside /repo and /verif), applies seeded/<id>/patch.diff, runs the named
# checks (quick tier) against it and removes the worktree.  Prints one line per check.
id=$1; shift
wt=/tmp/erdos-seeded/$id
git -C /repo worktree remove --force $wt 2>/dev/null; rm -rf $wt; mkdir -p /tmp/erdos-seeded /verif/out/recheck
git -C /repo worktree add -q --detach $wt HEAD || exit 3
if ! git -C $wt apply /verif/seeded/$id/patch.diff; then echo "$id: PATCH DOES NOT APPLY"; git -C /repo worktree remove --force $wt; exit 3; fi
for c in "$@"; do
  t0=$(date +%s)
  VERIF_REPO=$wt /verif/check $c --tier quick > /verif/out/recheck/$id.$c.log 2>&1
  rc=$?
  echo "$id: check $c rc=$rc wall=$(( $(date +%s) - t0 ))s kinds: $(grep '^  kind=' /verif/out/recheck/$id.$c.log | cut -d' ' -f3 | sort | uniq -c | sort -rn | head -6 | tr '\n' ' ')"
done
git -C /repo worktree remove --force $wt; rm -rf $wt
