#!/bin/sh
# usage: tools/sweep.sh <seed> <tier> [ids...]  -- runs every check from a fresh process, prints rc and wall per check
seed=$1; tier=$2; shift 2
ids=${@:-C01 C02 C03 C04 C05 C06 C07 C08 C09 C10 C11 C12 C13 C14 C15 C16 C17 C18 C19 C20}
mkdir -p /verif/out/sweeps
for c in $ids; do
  t0=$(date +%s)
  cp /verif/evidence/$c.json /tmp/ev.$c.$$ 2>/dev/null
  VERIF_SEED=$seed PYTHONHASHSEED=0 /verif/check $c --tier $tier > /verif/out/sweeps/$c.$tier.seed$seed.log 2>&1
  rc=$?
  # a sweep must not overwrite the evidence of the default seed
  [ "$KEEP_EVIDENCE" = "1" ] || cp /tmp/ev.$c.$$ /verif/evidence/$c.json 2>/dev/null
  rm -f /tmp/ev.$c.$$
  echo "$c tier=$tier seed=$seed rc=$rc wall=$(( $(date +%s) - t0 ))s $(grep -c '^VIOLATION' /verif/out/sweeps/$c.$tier.seed$seed.log) violations $(grep -c '^KNOWN-FINDING' /verif/out/sweeps/$c.$tier.seed$seed.log) known $(grep '^INCONCLUSIVE' /verif/out/sweeps/$c.$tier.seed$seed.log | cut -c1-200)"
done
