#!/bin/sh
# usage: tools/runseeded.sh <round dir, e.g. /tmp/seed3> <suffix, e.g. c> "ID check1 check2" ...
rd=$1; sfx=$2; shift 2
for x in "$@"; do set -- $x; id=$1; shift; /verif/tools/seeded2.sh $rd/$id ${id}${sfx} "$@" > /verif/out/seeded.${id}${sfx}.txt 2>&1; done
