#!/bin/sh
# evidence comes from seed 0; the other seeds leave the evidence files untouched
cd /verif
KEEP_EVIDENCE=1 tools/sweep.sh 0 quick > out/sweeps/final.seed0.txt 2>&1
KEEP_EVIDENCE=0 tools/sweep.sh 1 quick > out/sweeps/final.seed1.txt 2>&1
KEEP_EVIDENCE=0 tools/sweep.sh 2 quick > out/sweeps/final.seed2.txt 2>&1
