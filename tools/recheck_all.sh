#!/bin/sh
# usage: tools/recheck_all.sh <lanes>  -- re-creates every stored seeded change in a scratch worktree and runs its property's
# quick check against it; one summary line per change in out/recheck_all.<lane>.txt.  A change counts as caught when rc=1.
lanes=${1:-4}
cd /verif
ls seeded | sort > out/recheck_all.ids
i=0
while [ $i -lt $lanes ]; do
  ( awk -v n=$lanes -v k=$i 'NR % n == k' out/recheck_all.ids | while read id; do
      prop=$(echo $id | cut -c1-3)
      tools/seeded_recheck.sh $id $prop
    done > out/recheck_all.$i.txt 2>&1 ) &
  i=$((i+1))
done
wait
