#!/bin/sh
# usage: tools/seeded2.sh <worktree dir> <store id, e.g. C03b> <check ids...>
# Confirms a sub-agent's seeded change myself: (1) patch applies to /repo HEAD, (2) the repository's
# tests pass with it, (3) the demonstration fails with it and passes without it, (4) runs the named
# checks (quick tier) against the changed worktree.  Stores patch/demo/meta under seeded/<id>/.
wt=$1; id=$2; shift 2
out=/verif/out/seeded/$id; mkdir -p $out /verif/seeded/$id
cd $wt || exit 3
git diff -- . ':!patch.diff' ':!demo_break.py' ':!meta.json' ':!demonstration.md' > $out/patch.diff
[ -s $out/patch.diff ] || { echo "$id: EMPTY working-tree diff (is the change applied?)"; exit 3; }
cp $out/patch.diff /verif/seeded/$id/patch.diff
cp meta.json /verif/seeded/$id/meta.agent.json 2>/dev/null
cp demo_break.py /verif/seeded/$id/demonstration.py 2>/dev/null
cp demonstration.md /verif/seeded/$id/demonstration.md 2>/dev/null
git -C /repo apply --check $out/patch.diff && echo "$id: patch applies to /repo HEAD" || echo "$id: PATCH DOES NOT APPLY to /repo"
tests=$(/venv/bin/python -m pytest -q -p no:cacheprovider --timeout=900 2>&1 | tail -1)
echo "$id: tests(changed): $tests"
if [ -f demo_break.py ]; then
  timeout 600 /venv/bin/python demo_break.py > $out/demo.changed.log 2>&1; rc1=$?
  git apply -R $out/patch.diff
  timeout 600 /venv/bin/python demo_break.py > $out/demo.orig.log 2>&1; rc0=$?
  git apply $out/patch.diff
  echo "$id: demo rc changed=$rc1 (want 1) unchanged=$rc0 (want 0)"
fi
for c in "$@"; do
  t0=$(date +%s)
  VERIF_REPO=$wt /verif/check $c --tier quick > $out/check.$c.log 2>&1
  rc=$?
  echo "$id: check $c rc=$rc wall=$(( $(date +%s) - t0 ))s $(grep -c '^VIOLATION' $out/check.$c.log) violation lines; kinds: $(grep '^  kind=' $out/check.$c.log | cut -d' ' -f3 | sort | uniq -c | sort -rn | head -8 | tr '\n' ' ')"
done
