#!/venv/bin/python
"""Self-validation: apply one deliberate property-breaking change to a scratch
worktree of /repo (outside /repo and /verif), optionally run the repository's own
tests there, run the named checks against it (VERIF_REPO), report which fire, and
remove the worktree.

usage: tools/mutate.py <mutation name | all> [--tests] [--tier quick]
Mutations are listed in tools/mutations.json:
  {name, file, old, new, props: [ids expected to fire], note}
"""
import json
import os
import shutil
import subprocess
import sys
import time

HERE = os.path.dirname(os.path.abspath(__file__))
VERIF = os.path.dirname(HERE)
SCRATCH = "/tmp/erdos-mut"


def sh(cmd, **kw):
    return subprocess.run(cmd, shell=True, capture_output=True, text=True, **kw)


def run_one(m, tests, tier):
    wt = os.path.join(SCRATCH, m["name"])
    sh(f"git -C /repo worktree remove --force {wt}")
    shutil.rmtree(wt, ignore_errors=True)
    os.makedirs(SCRATCH, exist_ok=True)
    r = sh(f"git -C /repo worktree add --detach {wt} HEAD")
    if r.returncode != 0:
        return {"name": m["name"], "error": r.stderr[-300:]}
    out = {"name": m["name"], "props": {}}
    try:
        for ed in m.get("edits") or [m]:
            path = os.path.join(wt, ed["file"])
            src = open(path).read()
            if src.count(ed["old"]) != 1:
                out["error"] = f"pattern occurs {src.count(ed['old'])} times in {ed['file']}: {ed['old'][:60]!r}"
                return out
            open(path, "w").write(src.replace(ed["old"], ed["new"]))
        if tests:
            t = sh(f"cd {wt} && /venv/bin/python -m pytest -q -p no:cacheprovider --timeout=900 -x 2>&1 | tail -2")
            out["tests"] = t.stdout.strip().splitlines()[-1] if t.stdout.strip() else "?"
        for pid in m["props"]:
            t0 = time.time()
            env = dict(os.environ, VERIF_REPO=wt, PYTHONDONTWRITEBYTECODE="1")
            c = subprocess.run([os.path.join(VERIF, "check"), pid, "--tier", tier], capture_output=True, text=True, env=env)
            kinds = sorted({l.split()[0][5:] for l in c.stdout.splitlines() if l.startswith("  kind=")})
            out["props"][pid] = {"rc": c.returncode, "kinds": kinds[:6], "wall": round(time.time() - t0, 1)}
    finally:
        sh(f"git -C /repo worktree remove --force {wt}")
        shutil.rmtree(wt, ignore_errors=True)
    return out


def main():
    args = sys.argv[1:]
    tests = "--tests" in args
    tier = "quick"
    if "--tier" in args:
        tier = args[args.index("--tier") + 1]
    names = [a for a in args if not a.startswith("--") and a != tier]
    muts = json.load(open(os.path.join(HERE, "mutations.json")))
    sel = muts if (not names or names == ["all"]) else [m for m in muts if m["name"] in names]
    res = []
    for m in sel:
        r = run_one(m, tests, tier)
        res.append(r)
        caught = [p for p, v in r.get("props", {}).items() if v["rc"] == 1]
        print(f"{m['name']:40s} tests={r.get('tests', '-'):30s} caught_by={caught} "
              f"{ {p: (v['rc'], v['kinds'][:3]) for p, v in r.get('props', {}).items()} } {r.get('error', '')}", flush=True)
    # evidence of self-validation is kept out of evidence/: the harness rewrites that directory
    path = os.path.join(VERIF, "out", "mutation_results.json")
    merged = {}
    if os.path.exists(path):
        try:
            merged = {r["name"]: r for r in json.load(open(path))}
        except Exception:
            merged = {}
    for r in res:
        merged[r["name"]] = r
    with open(path, "w") as f:
        json.dump(list(merged.values()), f, indent=1)


if __name__ == "__main__":
    main()
