#!/bin/sh
# usage: tools/seeded.sh <ID> [check ids...]  -- stores the seeded change of /tmp/seed/<ID> under seeded/<ID>/ and runs checks against that worktree
id=$1; shift
mkdir -p /verif/seeded/$id
cp /tmp/seed/$id/patch.diff /tmp/seed/$id/meta.json /verif/seeded/$id/ 2>/dev/null
cp /tmp/seed/$id/demo_break.py /verif/seeded/$id/demonstration.py 2>/dev/null
for c in ${@:-$id}; do
  VERIF_REPO=/tmp/seed/$id /verif/check $c --tier quick > /tmp/seed/$id.check.$c.log 2>&1
  echo "$id: check $c rc=$? $(grep -c '^VIOLATION' /tmp/seed/$id.check.$c.log) violation lines; kinds: $(grep '^  kind=' /tmp/seed/$id.check.$c.log | cut -d' ' -f3 | sort | uniq -c | tr '\n' ' ')"
done
