#!/usr/bin/env python3
"""usage: tools/seeded_meta.py <store id> <property> <first result> <checks that catch it, free text>
Writes seeded/<id>/meta.json from the sub-agent's meta.agent.json plus what I confirmed myself
(out/seeded.<id>.txt written by tools/seeded2.sh)."""
import json, os, sys, re
sid, prop, first, caught = sys.argv[1:5]
d = f"/verif/seeded/{sid}"
agent = {}
if os.path.exists(f"{d}/meta.agent.json"):
    agent = json.load(open(f"{d}/meta.agent.json"))
log = open(f"/verif/out/seeded.{sid}.txt").read() if os.path.exists(f"/verif/out/seeded.{sid}.txt") else ""
tests = re.search(r"tests\(changed\): (.*)", log)
demo = re.search(r"demo rc (.*)", log)
checks = re.findall(r"check (C\d+) rc=(\d+) .*?kinds: (.*)", log)
meta = {
    "property": prop,
    "summary": agent.get("summary", ""),
    "needs": agent.get("needs", ""),
    "demo": agent.get("demo", ""),
    "tests": tests.group(1) if tests else agent.get("tests", ""),
    "confirmed": "sub-agent worked in its own scratch worktree of /repo (outside /repo and /verif) with only the property text; "
                 "I re-ran the repository's tests on the changed tree, the demonstration on the changed and on the unchanged tree "
                 f"(demo rc {demo.group(1) if demo else 'n/a: hand-worked demonstration.md'}), and `git apply --check` of patch.diff against /repo HEAD",
    "first_result": first,
    "checks_run": caught + " | last run: " + "; ".join(f"./check {c} --tier quick (VERIF_REPO=<worktree>) rc={rc} kinds: {k.strip()}" for c, rc, k in checks),
}
json.dump(meta, open(f"{d}/meta.json", "w"), indent=1)
os.path.exists(f"{d}/meta.agent.json") and os.remove(f"{d}/meta.agent.json")
print(sid, "ok", meta["tests"], [c[:2] for c in checks])
