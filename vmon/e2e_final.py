"""Offline checkers run after a world finished: C05 (termination / completion),
C06 (cancellation closure, graph-finished), C07 (branches), C08 (CSV trace and
summary vs ground truth, CSVReader round trip)."""
import os

from . import worldgen


def _profile_of(world, gbase, name):
    for g in world["workload"]["graphs"]:
        if g["name"] == gbase:
            for n in g["graph"]:
                if n["name"] == name:
                    pn = n["work_profile"]
                    for p in world["workload"]["profiles"]:
                        if p["name"] == pn:
                            return p
    return None


def _sinks(gd):
    return [n for n, cs in gd["children"].items() if not cs]


def _sources(gd):
    return [n for n, ps in gd["parents"].items() if not ps]


def graph_instances(ctx):
    inst = {}
    for r in ctx.tasks.values():
        inst.setdefault(r["graph"], {})[r["name"]] = r
    return inst


def untaken_nodes(ctx, gname, recs):
    """Names on branches not taken of conditionals that completed and chose a child."""
    out = set()
    gbase = gname.split("@")[0]
    for blk in ctx.world["meta"]["blocks"].get(gbase, []):
        c = recs.get(blk["cond"])
        if c is None or not c["finishes"] or "chosen_child" not in c:
            continue
        for br in blk["branches"]:
            if br["entry"] != c["chosen_child"]:
                out.update(br["nodes"])
    return out


def finalize(ctx):
    world = ctx.world
    flags = world["flags"]
    timeout = flags["loop_timeout"]
    inst = graph_instances(ctx)

    # ------------------------------------------------------------------ C05
    if ctx.status == "exception":
        ctx.violate("C05", f"exception:{ctx.exc_type}@{ctx.exc_where}", ctx.exception)
    elif ctx.status == "watchdog":
        ctx.violate("C05", "livelock", ctx.exception)
    elif ctx.status == "returned_without_end":
        ctx.violate("C05", "returned_without_end", "simulate() returned without a SIMULATOR_END event")
    if ctx.status == "ended":
        if ctx.end_time > timeout:
            ctx.violate("C05", "end_after_timeout", f"SIMULATOR_END at {ctx.end_time} > loop_timeout {timeout}")
        wc = (flags["scheduler"] in worldgen.GREEDY and not flags.get("enforce_deadlines")
              and not flags.get("drop_skipped_tasks") and world["meta"]["all_fit"]
              and not world["meta"].get("tight_timeout"))  # a timeout drawn inside the run ends it with work left, by design
        ctx.work_conserving = wc
        unfinished = []
        remaining_work = []
        for gname, recs in inst.items():
            unt = untaken_nodes(ctx, gname, recs)
            for name, r in recs.items():
                if r["state"] == "COMPLETED":
                    continue
                if r["state"] == "CANCELLED" and name in unt:
                    continue
                unfinished.append((r["uname"], r["state"]))
                if r["state"] in ("SCHEDULED", "RUNNING"):
                    remaining_work.append((r["uname"], r["state"]))
                elif r["state"] == "RELEASED":
                    prof = _profile_of(world, r["gbase"], name)
                    if prof and any(worldgen.strategy_fits_empty(s, world["cluster"])
                                    for s in prof["execution_strategies"]):
                        remaining_work.append((r["uname"], r["state"]))
        if wc:
            ctx.count("work_conserving_runs")
            if ctx.end_time >= timeout:
                ctx.violate("C05", "feasible_work_hit_timeout",
                            f"work-conserving feasible run ended at the timeout {timeout}; unfinished={unfinished[:6]}")
            elif unfinished:
                open_graphs = {g for g, blks in world["meta"]["blocks"].items() if any(b.get("open") for b in blks)}
                ctx.violate("C05", "feasible_work_unfinished", f"ended at {ctx.end_time} with {unfinished[:8]}",
                            unfinished_all_cancelled=all(st == "CANCELLED" for _, st in unfinished),
                            only_in_graphs_with_open_conditional=all(u.split("@")[1] in open_graphs for u, _ in unfinished))
        if ctx.end_time >= timeout and unfinished:
            ctx.count("ended_at_timeout_with_work")
        if ctx.end_time < timeout and remaining_work:
            ctx.violate("C05", "ended_with_work_remaining",
                        f"ended at {ctx.end_time} < timeout {timeout} with {remaining_work[:8]}")

    # ------------------------------------------------------------------ C06 / C07
    truncated = ctx.status != "ended" or ctx.end_time >= timeout
    cancel_rows = {}
    gf_rows = {}
    for row in ctx.csv:
        parts = row.split(",")
        if len(parts) > 1 and parts[1] == "TASK_CANCEL":
            cancel_rows.setdefault(parts[4], []).append(int(parts[0]))
        if len(parts) > 1 and parts[1] == "TASK_GRAPH_FINISHED":
            gf_rows.setdefault(parts[2], []).append(int(parts[0]))
    from . import e2e
    for gname, recs in inst.items():
        gd = ctx.graph_desc.get(gname.split("@")[0])
        if gd is None:
            continue
        anyc = False
        for name, r in recs.items():
            if r["state"] == "CANCELLED":
                anyc = True
                has_desc = bool(gd["children"].get(name))
                if has_desc:
                    ctx.flags_seen = getattr(ctx, "flags_seen", set()) | {"cancel_with_descendants"}
                    if any(gd["flags"][c]["terminal"] for c in gd["children"][name]):
                        ctx.flags_seen.add("cancel_before_join")
                if ctx.status == "ended" and not truncated and len(cancel_rows.get(r["id"], [])) != 1:
                    ctx.violate("C06", "cancelled_without_single_row",
                                f"{r['uname']} CANCELLED but TASK_CANCEL rows={cancel_rows.get(r['id'], [])}")
            if r["state"] != "CANCELLED" and e2e._starved(ctx, r):
                ctx.violate("C06", "starved_not_cancelled",
                            f"{r['uname']} is {r['state']} although it can no longer receive its inputs")
        sinks = _sinks(gd)
        fins = [recs[s]["finishes"][-1] if s in recs and recs[s]["finishes"] else None for s in sinks]
        rows = gf_rows.get(gname, [])
        if ctx.status == "ended":
            if all(f is not None for f in fins):
                ctx.count("graphs_finished")
                if rows != [max(fins)]:
                    ctx.violate("C06", "graph_finished_row", f"{gname}: sinks finished at {fins}, TASK_GRAPH_FINISHED rows {rows}")
            elif rows:
                ctx.violate("C06", "graph_finished_row", f"{gname}: sinks {list(zip(sinks, fins))} not all complete but rows {rows}")
        # C07 per block
        for blk in ctx.world["meta"]["blocks"].get(gname.split("@")[0], []):
            c = recs.get(blk["cond"])
            if c is None or not c["finishes"]:
                continue
            chosen = c.get("chosen_child")
            if chosen is None:
                continue
            ctx.count("cond_blocks_checked")
            for br in blk["branches"]:
                if br["entry"] == chosen:
                    ex = recs.get(br["exit"])
                    j = recs.get(blk["terminal"])
                    if ex is not None and ex["finishes"] and j is not None and ctx.status == "ended":
                        f = ex["finishes"][-1]
                        if j["state"] != "CANCELLED":
                            if j["released_at"] is None:
                                ctx.violate("C07", "join_not_released", f"{j['uname']}: taken branch exit {ex['uname']} finished at {f}")
                            elif j["released_at"] != f:
                                ctx.violate("C07", "join_release_time", f"{j['uname']} released at {j['released_at']} but taken branch finished at {f}")
                            if len(j["starts"]) > 1:
                                ctx.violate("C07", "join_started_twice", f"{j['uname']} starts {j['starts']}")
                            if not j["starts"] and getattr(ctx, "work_conserving", False):
                                # feasible world, work-conserving policy, nothing dropped or cancelled by deadline: "the join
                                # and everything after it run once the taken branch completes"
                                ctx.violate("C07", "join_did_not_run", f"{j['uname']} is {j['state']} at the end of the run although the "
                                                                       f"taken branch ({ex['uname']}) completed at {f}")
                        elif getattr(ctx, "work_conserving", False) and not any(b.get("empty") for b in blk["branches"]):
                            # nothing is dropped or cancelled by a policy in these worlds: the only cancellations are those of
                            # branch resolution, which stop short of the join.  (Blocks with an empty branch are judged online:
                            # join_cancelled_by_branch_resolution.)
                            ctx.violate("C07", "join_cancelled_although_taken_branch_completed",
                                        f"{j['uname']} was cancelled at {j['cancelled_at']}; the taken branch ({ex['uname']}) completed at {f}")
                        elif j["cancelled_at"] is not None and j["cancelled_at"] < f:
                            pass  # cancelled by a policy before the branch completed
                    continue
                for n in br["nodes"]:
                    r = recs.get(n)
                    if r is None:
                        continue
                    if r["starts"]:
                        ctx.violate("C07", "untaken_branch_started", f"{r['uname']} on an untaken branch started at {r['starts']}")
                    if r["state"] != "CANCELLED":
                        ctx.violate("C07", "untaken_branch_not_cancelled", f"{r['uname']} on an untaken branch is {r['state']}")

    # ------------------------------------------------------------------ C08
    check_csv(ctx, inst, truncated)


def _resstr(strategy):
    parts = []
    for k, q in strategy["resource_requirements"].items():
        n, i = k.split(":")
        parts += [n, i, str(q)]
    return parts


def check_csv(ctx, inst, truncated):
    world = ctx.world
    byid = {r["id"]: r for r in ctx.tasks.values()}
    rows = [r.split(",") for r in ctx.csv if not r.startswith("input_flag")]
    ctx.count("csv_rows", len(rows))
    seen = {"release": {}, "placement": {}, "finished": {}, "missed": {}, "cancel": {}}
    sched_starts, sched_fins = [], []
    end_row = None
    pool_rows = {}
    for p in rows:
        try:
            t = int(p[0])
        except ValueError:
            ctx.violate("C08", "malformed_row", ",".join(p)[:200])
            continue
        kind = p[1]
        if kind == "WORKER_POOL":
            pool_rows[p[3]] = p
        elif kind == "TASK_RELEASE":
            r = byid.get(p[7])
            if r is None:
                ctx.violate("C08", "row_unknown_task", ",".join(p)[:200])
                continue
            seen["release"].setdefault(r["id"], []).append(p)
            prof = _profile_of(world, r["gbase"], r["name"])
            slow = max(prof["execution_strategies"], key=lambda s: s["runtime"]) if prof else None
            # first strategy with the maximal runtime (python max keeps the first)
            gd = ctx.graph_desc[r["gbase"]]
            issrc = not gd["parents"].get(r["name"])
            exp = {"t": r["release_clock"], "name": r["name"], "graph": r["graph"],
                   "release": r["release_clock"], "deadline": r["deadline_at_release"]}
            got = {"t": t, "name": p[2], "graph": p[8], "release": int(p[5]), "deadline": int(p[6])}
            if exp != got:
                ctx.violate("C08", "task_release_row", f"row {p[:10]} expected {exp}")
            if issrc:
                if int(p[4]) != r["graph_release"]:
                    ctx.violate("C08", "task_release_intended", f"row {p[:10]} intended {p[4]} expected {r['graph_release']}")
            elif int(p[4]) != -1:
                ctx.violate("C08", "task_release_intended", f"row {p[:10]} non-source intended {p[4]} expected -1")
            if slow is not None:
                if int(p[9]) != slow["runtime"] or p[10:] != _resstr(slow):
                    ctx.violate("C08", "task_release_strategy", f"row {p} expected runtime {slow['runtime']} res {_resstr(slow)}")
        elif kind == "TASK_PLACEMENT":
            r = byid.get(p[5])
            if r is None:
                ctx.violate("C08", "row_unknown_task", ",".join(p)[:200])
                continue
            seen["placement"].setdefault(r["id"], []).append(p)
            if not r["starts"] or r["starts"][-1] != t:
                ctx.violate("C08", "task_placement_time", f"row {p[:8]} but task started at {r['starts']}")
            if r.get("pool_id") != p[6]:
                ctx.violate("C08", "task_placement_pool", f"row {p[:8]} but placed on pool {r.get('pool_id')}")
            if r.get("expect_runtime") is not None and int(p[7]) != r["expect_runtime"]:
                ctx.violate("C08", "task_placement_runtime", f"row {p[:8]} but strategy runtime {r['expect_runtime']}")
            trip = [(p[i], p[i + 1], int(p[i + 2])) for i in range(8, len(p) - 2, 3)]
            if (len(p) - 8) % 3 != 0:
                ctx.violate("C08", "task_placement_resources", f"row {p} has a ragged resource list")
            dem = {}
            for n, i, q in trip:
                dem[n] = dem.get(n, 0) + q
            if r.get("demand") is not None and dem != r["demand"]:
                ctx.violate("C08", "task_placement_resources", f"row {p} resources {dem} but strategy demands {r['demand']}")
            own = r.get("worker_res_ids")
            if own is not None:
                for n, i, q in trip:
                    if (n, i) not in own:
                        ctx.violate("C08", "task_placement_resources", f"row {p}: ({n},{i}) not a resource of worker {r.get('worker')}")
        elif kind == "TASK_FINISHED":
            r = byid.get(p[7])
            if r is None:
                ctx.violate("C08", "row_unknown_task", ",".join(p)[:200])
                continue
            seen["finished"].setdefault(r["id"], []).append(p)
            exp = [r["finishes"][-1] if r["finishes"] else None] * 2 + [r.get("deadline_at_release"), r["name"], r["graph"]]
            got = [t, int(p[5]), int(p[6]), p[2], p[4]]
            if exp != got:
                ctx.violate("C08", "task_finished_row", f"row {p} expected (t,completion,deadline,name,graph)={exp}")
        elif kind == "MISSED_DEADLINE":
            r = byid.get(p[5])
            if r is None:
                ctx.violate("C08", "row_unknown_task", ",".join(p)[:200])
                continue
            seen["missed"].setdefault(r["id"], []).append(p)
            if not r["finishes"] or t != r["finishes"][-1] or int(p[4]) != r.get("deadline_at_release"):
                ctx.violate("C08", "missed_deadline_row", f"row {p} but finishes {r['finishes']} deadline {r.get('deadline_at_release')}")
        elif kind == "TASK_CANCEL":
            r = byid.get(p[4])
            if r is None:
                ctx.violate("C08", "row_unknown_task", ",".join(p)[:200])
                continue
            seen["cancel"].setdefault(r["id"], []).append(p)
            prof = _profile_of(world, r["gbase"], r["name"])
            slow = max(s["runtime"] for s in prof["execution_strategies"]) if prof else None
            if t != r["cancelled_at"] or p[2] != r["name"] or p[5] != r["graph"] or (slow is not None and int(p[6]) != slow):
                ctx.violate("C08", "task_cancel_row", f"row {p} but cancelled_at {r['cancelled_at']} slowest {slow}")
        elif kind == "SCHEDULER_START":
            sched_starts.append(p)
        elif kind == "SCHEDULER_FINISHED":
            sched_fins.append(p)
        elif kind == "SIMULATOR_END":
            end_row = p

    # every observed event has its row (once)
    for r in ctx.tasks.values():
        if r.get("release_clock") is not None and len(seen["release"].get(r["id"], [])) != r.get("release_calls", 0):
            ctx.violate("C08", "task_release_row_count", f"{r['uname']}: {r.get('release_calls')} releases, {len(seen['release'].get(r['id'], []))} rows")
        if len(seen["placement"].get(r["id"], [])) != len(r["starts"]):
            ctx.violate("C08", "task_placement_row_count", f"{r['uname']}: starts {r['starts']} rows {len(seen['placement'].get(r['id'], []))}")
        if len(seen["finished"].get(r["id"], [])) != len(r["finishes"]):
            ctx.violate("C08", "task_finished_row_count", f"{r['uname']}: finishes {r['finishes']} rows {len(seen['finished'].get(r['id'], []))}")
        missed = bool(r["finishes"]) and r["finishes"][-1] > r.get("deadline_at_release", 1 << 62)
        if missed:
            ctx.flags_seen = getattr(ctx, "flags_seen", set()) | {"missed_deadline"}
        if (len(seen["missed"].get(r["id"], [])) == 1) != missed or len(seen["missed"].get(r["id"], [])) > 1:
            ctx.violate("C08", "missed_deadline_iff", f"{r['uname']}: finish {r['finishes']} deadline {r.get('deadline_at_release')} MISSED rows {len(seen['missed'].get(r['id'], []))}")
    # scheduler rows
    calls = ctx.sched_calls
    if len(sched_starts) != len(calls) and ctx.status == "ended":
        ctx.violate("C08", "scheduler_row_count", f"{len(calls)} schedule() calls, {len(sched_starts)} SCHEDULER_START rows")
    for p, c in zip(sched_starts, calls):
        ctx.count("scheduler_rows_checked")
        if int(p[0]) != c["t"]:
            ctx.violate("C08", "scheduler_start_row", f"row {p} but call at {c['t']}")
        if c.get("offered") is not None and int(p[2]) != len(c["offered"]):
            pol = getattr(getattr(ctx.sim, "_scheduler", None), "policy", None)
            ctx.violate("C08", "scheduler_start_offered", f"row {p} but policy was offered {len(c['offered'])}",
                        branch_policy=getattr(pol, "name", None),
                        has_conditional=any(bool(b) for b in ctx.world["meta"]["blocks"].values()))
        if int(p[3]) != c["resident"]:
            ctx.violate("C08", "scheduler_start_placed", f"row {p} but {c['resident']} tasks resident")
    for p, c in zip(sched_fins, calls):
        if c.get("n_placed") is None:
            continue
        if int(p[0]) != c["t"] + c["runtime"] or int(p[2]) != c["runtime"]:
            ctx.violate("C08", "scheduler_finished_time", f"row {p} but call at {c['t']} runtime {c['runtime']}")
        if int(p[3]) != c["n_placed"]:
            ctx.violate("C08", "scheduler_finished_placed", f"row {p} but {c['n_placed']} placed decisions")
        if int(p[4]) != c["n_unplaced"]:
            ctx.violate("C08", "scheduler_finished_unplaced", f"row {p} but {c['n_unplaced']} unplaced decisions")
            ctx.flags_seen = getattr(ctx, "flags_seen", set()) | {"unplaced_decision"}
    # summary
    if ctx.status == "ended":
        if end_row is None:
            ctx.violate("C08", "no_end_row", "run ended without SIMULATOR_END row")
        else:
            fin = sum(1 for r in ctx.tasks.values() if r["finishes"])
            canc = sum(1 for r in ctx.tasks.values() if r["state"] == "CANCELLED")
            miss = sum(1 for r in ctx.tasks.values() if r["finishes"] and r["finishes"][-1] > r.get("deadline_at_release", 1 << 62))
            fg = cg = mg = 0
            for gname, recs in inst.items():
                gd = ctx.graph_desc.get(gname.split("@")[0])
                if gd is None:
                    continue
                sinks = _sinks(gd)
                if all(s in recs and recs[s]["finishes"] for s in sinks):
                    fg += 1
                    comp = max(recs[s]["finishes"][-1] for s in sinks)
                    gdl = max(r.get("deadline_at_release", r.get("deadline_seen", 0)) for r in recs.values())
                    if comp > gdl:
                        mg += 1
                if any(s in recs and recs[s]["state"] == "CANCELLED" for s in sinks):
                    cg += 1
            exp = [ctx.end_time, fin, canc, miss, fg, cg, mg]
            got = [int(x) for x in end_row[:1] + end_row[2:8]]
            ctx.summary = {"expected": exp, "row": got}
            names = ["time", "finished_tasks", "cancelled_tasks", "missed_task_deadlines",
                     "finished_task_graphs", "cancelled_task_graphs", "missed_task_graph_deadlines"]
            for n, e, g in zip(names, exp, got):
                if e != g:
                    ctx.violate("C08", f"summary_{n}", f"SIMULATOR_END reports {n}={g}, ground truth {e} (row {end_row})")
            if canc:
                ctx.flags_seen = getattr(ctx, "flags_seen", set()) | {"cancelled_tasks"}
    # CSVReader round trip
    if ctx.status == "ended" and ctx.opts.get("csvreader", True) and ctx.paths.get("csv") and os.path.exists(ctx.paths["csv"]):
        _csvreader_roundtrip(ctx, inst)


def _reader_census_explained(ctx, inst):
    """True iff the reader's end-of-parse assertions fail *only* because it counts as
    cancelled a task graph in which some non-sink task was cancelled (untaken
    conditional branch / dropped task) and which neither finished nor lost a sink by the
    end of the run.  Recomputed from ground truth, independent of the reader."""
    fin = canc_reader = 0
    odd = 0
    for gname, recs in inst.items():
        gd = ctx.graph_desc.get(gname.split("@")[0])
        if gd is None:
            return False
        sinks = _sinks(gd)
        finished = all(s in recs and recs[s]["finishes"] for s in sinks)
        any_cancel = any(r["state"] == "CANCELLED" for r in recs.values())
        sink_cancel = any(s in recs and recs[s]["state"] == "CANCELLED" for s in sinks)
        if any_cancel and not finished and not sink_cancel:
            odd += 1
    if odd == 0 or not getattr(ctx, "summary", None):
        return False
    exp, got = ctx.summary["expected"], ctx.summary["row"]
    return exp == got  # the simulator's own summary is right; only the reader's census differs


def _csvreader_roundtrip(ctx, inst):
    import io
    import contextlib
    from data import CSVReader
    path = ctx.paths["csv"]
    try:
        with contextlib.redirect_stdout(io.StringIO()):
            rd = CSVReader([path])
    except BaseException as e:  # noqa
        cause = e.__cause__ or e
        facts = {}
        if isinstance(cause, AssertionError):
            facts["explained_by_branch_cancel"] = _reader_census_explained(ctx, inst)
        ctx.violate("C08", f"csvreader_raises:{type(cause).__name__}", f"{type(e).__name__}: {str(e)[:200]} / cause {type(cause).__name__}: {str(cause)[:120]}", **facts)
        return
    ctx.count("csvreader_parsed")
    tasks = {t.task_id: t for t in rd.get_tasks(path)}
    for r in ctx.tasks.values():
        t = tasks.get(r["id"])
        if r.get("release_clock") is None and r["state"] != "CANCELLED":
            if t is not None:
                ctx.violate("C08", "csvreader_task", f"reader has task {r['uname']} that was never released nor cancelled")
            continue
        if t is None:
            ctx.violate("C08", "csvreader_task", f"reader lost task {r['uname']}")
            continue
        exp = {"name": r["name"], "graph": r["graph"], "release": r.get("release_clock"),
               "deadline": r.get("deadline_at_release") if r.get("release_clock") is not None else None,
               "start": r["starts"][0] if r["starts"] else None,
               "completion": r["finishes"][-1] if r["finishes"] else None,
               "cancelled": r["state"] == "CANCELLED",
               "missed": bool(r["finishes"]) and r["finishes"][-1] > r.get("deadline_at_release", 1 << 62)}
        got = {"name": t.name, "graph": t.task_graph, "release": t.release_time, "deadline": t.deadline,
               "start": t.start_time if t.placements else None, "completion": t.completion_time,
               "cancelled": t.cancelled, "missed": t.missed_deadline}
        if t.placements and t.start_time is None and r["starts"] == [0]:
            got["start"] = 0  # the reader stores a start at t=0 as falsy None; equal by value
        if exp != got:
            ctx.violate("C08", "csvreader_task", f"{r['uname']}: reader {got} truth {exp}")
    graphs = rd.get_task_graph(path)
    for gname, recs in inst.items():
        gd = ctx.graph_desc.get(gname.split("@")[0])
        g = graphs.get(gname)
        if g is None:
            ctx.violate("C08", "csvreader_graph_missing", f"reader has no task graph {gname}")
            continue
        sinks = _sinks(gd)
        done = all(s in recs and recs[s]["finishes"] for s in sinks)
        comp = max(recs[s]["finishes"][-1] for s in sinks) if done else None
        if g.completion_at != comp:
            ctx.violate("C08", "csvreader_graph", f"{gname}: reader completion {g.completion_at} truth {comp}")
        if g.num_tasks != len(gd["children"]):
            ctx.violate("C08", "csvreader_graph", f"{gname}: reader num_tasks {g.num_tasks} truth {len(gd['children'])}")
