"""vmon — runtime monitors for erdos-scheduling-simulator (see /verif/DESIGN.md)."""
