"""Paths, repo import, global-state reset and the class-level hook layer.

Everything here is harness-side: nothing in /repo is edited.  Monitors attach
by replacing attributes on the repository's classes (`wrap`) and are removed
again by `unwrap_all`.
"""
import hashlib
import json
import logging
import os
import random
import sys

VERIF = os.path.dirname(os.path.dirname(os.path.abspath(__file__)))
REPO = os.environ.get("VERIF_REPO", "/repo")
OUT = os.path.join(VERIF, "out")
EVIDENCE = os.path.join(VERIF, "evidence")
PY = "/venv/bin/python"

if REPO not in sys.path:
    sys.path.insert(0, REPO)

# The planners give every solver model multiprocessing.cpu_count() threads.  The checks run 16 worker processes side by
# side on tiny models: 16 x 16 solver threads only fight each other (a thorough shard was observed spinning in
# sched_yield inside GRBoptimize for hours of CPU time).  One thread per model in the harness' processes; this changes the
# solver's parallelism, nothing the properties speak about.
import multiprocessing as _mp  # noqa: E402

_SOLVER_THREADS = int(os.environ.get("VERIF_SOLVER_THREADS", "1"))
if _SOLVER_THREADS > 0:
    _mp.cpu_count = lambda: _SOLVER_THREADS


# --------------------------------------------------------------------------
# wall-clock alarm that also works inside a solver
# --------------------------------------------------------------------------
# A Python exception raised by the SIGALRM handler while Gurobi runs one of the repository's callbacks is swallowed by the
# callback stub ("Exception ignored in gurobipy._core.callbackstub") and the solve goes on -- observed on a thorough shard:
# one ILP solve ran for hours and gigabytes.  The handler therefore also sets ABORT; the wrapped callback of the planners
# then asks the model to terminate, and the wrapped schedule() raises SolverAborted from ordinary Python code once the
# solver has returned.  Tooling-inconclusive, never a verdict.
ABORT = {"flag": False, "terminated": 0}


class SolverAborted(BaseException):
    """a solver call was cut short by the harness' wall-clock alarm"""


_GUARDED = []


def install_solver_guard():
    if _GUARDED:
        return
    _GUARDED.append(True)
    import schedulers.ilp_scheduler as ilp
    import schedulers.tetrisched_gurobi_scheduler as tg
    for cls in (ilp.ILPScheduler, tg.TetriSchedGurobiScheduler):
        def make(cls):
            orig_cb = cls._termination_check_callback
            orig_schedule = cls.schedule

            def cb(self, sim_time, optimizer, where, *a, **k):
                if ABORT["flag"]:
                    ABORT["terminated"] += 1
                    optimizer.terminate()
                    return None
                return orig_cb(self, sim_time, optimizer, where, *a, **k)

            def schedule(self, *a, **k):
                try:
                    return orig_schedule(self, *a, **k)
                finally:
                    if ABORT["flag"]:
                        ABORT["flag"] = False
                        raise SolverAborted("solver call cut short by the wall-clock alarm")
            schedule.__wrapped__ = orig_schedule
            cls._termination_check_callback = cb
            cls.schedule = schedule
        make(cls)


def alarm_fired(rearm_s=30):
    """to be called by a SIGALRM handler before it raises: arms the solver guard and a follow-up alarm"""
    import signal
    ABORT["flag"] = True
    signal.alarm(rearm_s)


def alarm_cleared():
    ABORT["flag"] = False


class call_budget:
    """`with call_budget(20) as b: policy.schedule(...)` -- after `seconds` a timer thread arms the solver guard: the next
    solver callback ends the solve and the wrapped schedule() raises SolverAborted.  No signals (usable inside a run that has
    its own alarm); only Gurobi-backed planners are cut short, anything else simply runs on."""

    def __init__(self, seconds):
        self.seconds = seconds
        self.fired = False

    def _fire(self):
        self.fired = True
        ABORT["flag"] = True

    def __enter__(self):
        import threading
        install_solver_guard()
        self.timer = threading.Timer(self.seconds, self._fire)
        self.timer.daemon = True
        self.timer.start()
        return self

    def __exit__(self, etype, e, tb):
        self.timer.cancel()
        if self.fired:
            ABORT["flag"] = False
        return False


class wall_guard:
    """`with wall_guard(120): policy.schedule(...)` -- raises SolverAborted when the call does not return in time"""

    def __init__(self, seconds):
        self.seconds = seconds

    def __enter__(self):
        import signal
        install_solver_guard()

        def handler(signum, frame):
            alarm_fired()
            raise SolverAborted("wall-clock alarm")
        self.old = signal.signal(signal.SIGALRM, handler)
        signal.alarm(self.seconds)
        return self

    def __exit__(self, *exc):
        import signal
        signal.alarm(0)
        signal.signal(signal.SIGALRM, self.old)
        alarm_cleared()
        return False


# the documented priority of simultaneous events (simulator.py, EventType): events that
# free resources first.  Written down here by name so that the monitors do not follow a
# change of the enum values.
EVENT_ORDER = ["SIMULATOR_START", "TASK_CANCEL", "EVICT_PROFILE", "TASK_FINISHED", "TASK_GRAPH_RELEASE",
               "TASK_RELEASE", "UPDATE_WORKLOAD", "TASK_PREEMPT", "TASK_MIGRATION", "LOAD_PROFILE",
               "TASK_PLACEMENT", "SCHEDULER_START", "SCHEDULER_FINISHED", "SIMULATOR_END", "LOG_UTILIZATION"]
EVENT_RANK = {n: i for i, n in enumerate(EVENT_ORDER)}


def seed_int(*parts) -> int:
    """Deterministic 63-bit integer from arbitrary parts (no PYTHONHASHSEED)."""
    h = hashlib.sha256(repr(parts).encode()).digest()
    return int.from_bytes(h[:8], "big") >> 1


def case_hash(obj) -> str:
    return hashlib.sha256(
        json.dumps(obj, sort_keys=True, default=str).encode()
    ).hexdigest()[:16]


# --------------------------------------------------------------------------
# hook layer
# --------------------------------------------------------------------------
_WRAPPED = []  # (owner, attr, original)
COUNTS = {}  # "Class.method" -> number of invocations observed


class MonitorViolation(Exception):
    """Raised by an online monitor to abort a run at the first bad event."""

    def __init__(self, prop, kind, detail):
        super().__init__(f"{prop}:{kind}:{detail}")
        self.prop, self.kind, self.detail = prop, kind, detail


def wrap(owner, attr, before=None, after=None, label=None):
    """Replace `owner.attr` by a wrapper calling before(*a, **k) / after(ret, *a, **k).

    `after` also receives exceptions: after(ret=None, exc=e, ...) is NOT called;
    use `on_exc` semantics by wrapping twice if ever needed.  Monitors never
    alter arguments or results.
    """
    original = owner.__dict__[attr] if attr in owner.__dict__ else getattr(owner, attr)
    is_static = isinstance(original, staticmethod)
    func = original.__func__ if is_static else original
    key = label or f"{getattr(owner, '__name__', owner)}.{attr}"
    COUNTS.setdefault(key, 0)

    def wrapper(*a, **k):
        COUNTS[key] += 1
        if before is not None:
            before(*a, **k)
        ret = func(*a, **k)
        if after is not None:
            after(ret, *a, **k)
        return ret

    wrapper.__name__ = getattr(func, "__name__", attr)
    wrapper.__wrapped__ = func
    setattr(owner, attr, staticmethod(wrapper) if is_static else wrapper)
    _WRAPPED.append((owner, attr, original))
    return func


def unwrap_all():
    while _WRAPPED:
        owner, attr, original = _WRAPPED.pop()
        setattr(owner, attr, original)


def reset_counts():
    COUNTS.clear()


# --------------------------------------------------------------------------
# process-global state of the repository
# --------------------------------------------------------------------------
class ListHandler(logging.Handler):
    def __init__(self, sink):
        super().__init__(level=logging.DEBUG)
        self.sink = sink

    def emit(self, record):
        try:
            self.sink.append(record.getMessage())
        except Exception:  # pragma: no cover
            self.sink.append("<unformattable>")


def reset_logging():
    """Drop every handler of every logger: `setup_logging` caches by name."""
    for name, lg in list(logging.root.manager.loggerDict.items()):
        if isinstance(lg, logging.Logger):
            for h in list(lg.handlers):
                lg.removeHandler(h)
                try:
                    h.close()
                except Exception:
                    pass
            lg.filters.clear()


def capture_logger(name, sink, path=None):
    """Pre-create logger `name` so that the repo's setup_logging returns it as is."""
    lg = logging.getLogger(name)
    for h in list(lg.handlers):
        lg.removeHandler(h)
    lg.propagate = False
    lg.setLevel(logging.DEBUG)
    lg.addHandler(ListHandler(sink))
    if path is not None:
        fh = logging.FileHandler(path, mode="w")
        fh.setFormatter(logging.Formatter("%(message)s"))
        lg.addHandler(fh)
    return lg


def reset_repo_globals():
    """State that a fresh `python main.py` process would have."""
    import utils  # repo module

    reset_logging()
    # In a fresh process EventTime._rng is created while `random_seed` is not yet
    # a defined flag, hence always Random(42).
    utils.EventTime._rng = random.Random(42)


class DevNull:
    def write(self, *_):
        return 0

    def flush(self):
        pass

    def isatty(self):
        return False
