// Sequential stand-in for tbb::concurrent_hash_map (only what libtetrisched uses).
// The real TBB is not installed in this sandbox; see /verif/DESIGN.md (C20): with this
// shim no data race of the TBB-parallel build can be observed.
#pragma once
#include <cstddef>
#include <functional>
#include <map>
#include <unordered_map>
#include <utility>

namespace tbb {
template <typename Key>
struct tbb_hash_compare {
  static size_t hash(const Key& k) { return std::hash<Key>()(k); }
  static bool equal(const Key& a, const Key& b) { return a == b; }
};

template <typename Key, typename T, typename HashCompare = tbb_hash_compare<Key>>
class concurrent_hash_map {
  struct Hasher {
    size_t operator()(const Key& k) const { return HashCompare::hash(k); }
  };
  struct Eq {
    bool operator()(const Key& a, const Key& b) const { return HashCompare::equal(a, b); }
  };
  using Map = std::unordered_map<Key, T, Hasher, Eq>;
  Map map_;

 public:
  using value_type = typename Map::value_type;
  using iterator = typename Map::iterator;
  using const_iterator = typename Map::const_iterator;

  class const_accessor {
   protected:
    friend class concurrent_hash_map;
    value_type* ptr_ = nullptr;

   public:
    const value_type& operator*() const { return *ptr_; }
    const value_type* operator->() const { return ptr_; }
    bool empty() const { return ptr_ == nullptr; }
    void release() { ptr_ = nullptr; }
  };
  class accessor : public const_accessor {
   public:
    value_type& operator*() const { return *this->ptr_; }
    value_type* operator->() const { return this->ptr_; }
  };

  struct range_type {
    Map* m;
    iterator begin() const { return m->begin(); }
    iterator end() const { return m->end(); }
  };
  struct const_range_type {
    const Map* m;
    const_iterator begin() const { return m->begin(); }
    const_iterator end() const { return m->end(); }
  };

  concurrent_hash_map() = default;

  bool insert(accessor& a, const Key& k) {
    auto r = map_.emplace(k, T());
    a.ptr_ = &*r.first;
    return r.second;
  }
  bool insert(const_accessor& a, const Key& k) {
    auto r = map_.emplace(k, T());
    a.ptr_ = &*r.first;
    return r.second;
  }
  bool insert(accessor& a, const value_type& v) {
    auto r = map_.insert(v);
    a.ptr_ = &*r.first;
    return r.second;
  }
  bool insert(const value_type& v) { return map_.insert(v).second; }
  bool find(accessor& a, const Key& k) {
    auto it = map_.find(k);
    if (it == map_.end()) return false;
    a.ptr_ = &*it;
    return true;
  }
  bool find(const_accessor& a, const Key& k) const {
    auto it = const_cast<Map&>(map_).find(k);
    if (it == const_cast<Map&>(map_).end()) return false;
    a.ptr_ = &*it;
    return true;
  }
  bool erase(const Key& k) { return map_.erase(k) > 0; }
  size_t count(const Key& k) const { return map_.count(k); }
  void clear() { map_.clear(); }
  size_t size() const { return map_.size(); }
  bool empty() const { return map_.empty(); }
  iterator begin() { return map_.begin(); }
  iterator end() { return map_.end(); }
  const_iterator begin() const { return map_.begin(); }
  const_iterator end() const { return map_.end(); }
  range_type range(size_t = 1) { return range_type{&map_}; }
  const_range_type range(size_t = 1) const { return const_range_type{&map_}; }
};
}  // namespace tbb
