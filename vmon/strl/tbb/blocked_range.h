#pragma once
#include "parallel_for.h"
