// Sequential stand-in for tbb::task_group: tasks run immediately.
#pragma once
namespace tbb {
class task_group {
 public:
  template <typename F>
  void run(const F& f) { f(); }
  void wait() {}
};
}  // namespace tbb
