// Sequential stand-in for tbb::concurrent_vector.
#pragma once
#include <vector>
namespace tbb {
template <typename T>
class concurrent_vector : public std::vector<T> {
 public:
  using std::vector<T>::vector;
  typename std::vector<T>::iterator grow_by(size_t n) {
    auto old = this->size();
    this->resize(old + n);
    return this->begin() + old;
  }
};
}  // namespace tbb
