"""Seeded generator of small STRL expression DAGs, partition sets and compile options.

A spec is plain data (see to_text for the driver's line format):
  now, disc, ranges [(a, b, g)], passes [..], dyn (min, max),
  partitions [{"id", "name", "q"}], nodes [{"type", "name", ...}], edges [(parent, child)], root
Node parameters
  choose  : parts [ids], n, start, dur, util
  wchoose : parts, n, start, dur, end (latest start), gran, util
  mchoose : parts, slots, start, end, gran, util
  alloc   : alloc [(pid, q)], start, dur
  scale   : factor, disregard (bool)
  objective / min / max / lessthan : no parameters
"""
import random

PASSES = ["CRITICAL_PATH_PASS", "CAPACITY_CONSTRAINT_PURGE_PASS", "DYNAMIC_DISCRETIZATION_PASS"]


def to_text(spec):
    out = [f"now {spec['now']}", f"disc {spec['disc']}"]
    for a, b, g in spec.get("ranges", []):
        out.append(f"range {a} {b} {g}")
    for p in spec.get("passes", []):
        out.append(f"pass {p}")
    if spec.get("dyn"):
        out.append(f"dyn {spec['dyn'][0]} {spec['dyn'][1]}")
    for p in spec["partitions"]:
        out.append(f"partition {p['id']} {p['name']} {p['q']}")
    for i, n in enumerate(spec["nodes"]):
        t = n["type"]
        if t == "choose":
            args = [",".join(map(str, n["parts"])), n["n"], n["start"], n["dur"], repr(float(n["util"]))]
        elif t == "wchoose":
            args = [",".join(map(str, n["parts"])), n["n"], n["start"], n["dur"], n["end"], n["gran"], repr(float(n["util"]))]
        elif t == "mchoose":
            args = [",".join(map(str, n["parts"])), n["slots"], n["start"], n["end"], n["gran"], repr(float(n["util"]))]
        elif t == "alloc":
            args = [",".join(f"{p}:{q}" for p, q in n["alloc"]), n["start"], n["dur"]]
        elif t == "scale":
            args = [repr(float(n["factor"]))] + (["1"] if n.get("disregard") else [])
        else:
            args = []
        out.append(" ".join(["node", str(i), t, n["name"]] + [str(a) for a in args]))
    for p, c in spec["edges"]:
        out.append(f"edge {p} {c}")
    out.append(f"root {spec['root']}")
    out.append("endspec")
    return "\n".join(out) + "\n"


def children_of(spec):
    ch = {i: [] for i in range(len(spec["nodes"]))}
    for p, c in spec["edges"]:
        ch[p].append(c)
    return ch


class _B:
    """builder state"""

    def __init__(self, rng, spec, opts):
        self.rng, self.spec, self.o = rng, spec, opts
        self.ntask = 0
        self.options = 0  # number of leaf placement options generated so far
        self.fixed = {p["id"]: 0 for p in spec["partitions"]}
        self.composites = []

    def add(self, node):
        self.spec["nodes"].append(node)
        return len(self.spec["nodes"]) - 1

    def edge(self, p, c):
        self.spec["edges"].append((p, c))


def _parts(b):
    ids = [p["id"] for p in b.spec["partitions"]]
    k = b.rng.choice([len(ids), len(ids), b.rng.randint(1, len(ids))])
    return sorted(b.rng.sample(ids, k))


def _grid_time(b, lo_slots=-1, hi_slots=6):
    g = b.o["grid"]
    base = (b.spec["now"] // g) * g
    t = base + g * b.rng.randint(lo_slots, hi_slots)
    if not b.o["aligned"] and b.rng.random() < 0.5:
        t += b.rng.randint(1, max(1, g - 1))
    return max(0, t)


def _dur(b):
    g = b.o["grid"]
    if b.rng.random() < 0.6:
        return g * b.rng.randint(1, 3)
    return b.rng.randint(1, 3 * g)


def _amount(b, parts):
    qs = [p["q"] for p in b.spec["partitions"] if p["id"] in parts]
    tot = sum(qs)
    r = b.rng.random()
    if r < 0.55:
        return b.rng.randint(1, max(qs))
    if r < 0.9:
        return b.rng.randint(1, tot)
    return tot + 1  # can never be satisfied


def _util(b):
    return b.rng.choice([1, 1, 2, 3, 5, 0.5, 1.5, 7])


def _wgran(b):
    """granularity of a WindowedChoose: a multiple of the capacity grid, except in the misaligned class."""
    g = b.o["grid"]
    if b.o["aligned"]:
        return g * b.rng.choice([1, 1, 1, 2])
    return b.rng.choice([1, 2, 3, g])


def _wstart(b, gran):
    """window start on the WindowedChoose's own grid (off-grid windows have no documented meaning)."""
    base = (b.spec["now"] // gran) * gran
    return max(0, base + gran * b.rng.randint(-1, 3))


def _task(b):
    """one task: a leaf or a Max over alternative leaves; returns node index."""
    rng = b.rng
    b.ntask += 1
    name = f"t{b.ntask}"
    r = rng.random()
    kinds = b.o["kinds"]
    kind = rng.choices(list(kinds), weights=list(kinds.values()))[0]
    if kind == "alloc":
        # a running task: started at or before now, still holding resources
        cand = [p for p in b.spec["partitions"] if b.fixed[p["id"]] < p["q"]]
        if not cand:
            kind = "choose"
        else:
            g = b.o["grid"]
            p = rng.choice(cand)
            q = rng.randint(1, p["q"] - b.fixed[p["id"]])
            b.fixed[p["id"]] += q
            start = (b.spec["now"] // g) * g if b.o["aligned"] or rng.random() < 0.5 else b.spec["now"]
            dur = (b.spec["now"] - start) + rng.randint(1, 3 * g)
            return b.add({"type": "alloc", "name": name, "alloc": [(p["id"], q)], "start": start, "dur": dur})
    if kind == "choose":
        parts = _parts(b)
        b.options += 1
        return b.add({"type": "choose", "name": name, "parts": parts, "n": _amount(b, parts), "start": _grid_time(b),
                      "dur": _dur(b), "util": _util(b)})
    if kind == "max":
        k = rng.randint(1, 3)
        parts = _parts(b)
        n = _amount(b, parts)
        dur = _dur(b)
        times = sorted({_grid_time(b) for _ in range(k)})
        m = b.add({"type": "max", "name": f"{name}_max"})
        for t in times:
            b.options += 1
            if rng.random() < b.o.get("p_other_strategy", 0.25):  # another strategy of the same task (own duration)
                parts2 = _parts(b)
                c = b.add({"type": "choose", "name": name, "parts": parts2, "n": _amount(b, parts2), "start": t, "dur": _dur(b),
                           "util": _util(b)})
            else:
                c = b.add({"type": "choose", "name": name, "parts": parts, "n": n, "start": t, "dur": dur, "util": _util(b)})
            b.edge(m, c)
        if rng.random() < 0.15:
            parts2 = _parts(b)
            g = _wgran(b)
            s = _wstart(b, g)
            b.options += 3
            c = b.add({"type": "wchoose", "name": name, "parts": parts2, "n": _amount(b, parts2), "start": s, "dur": _dur(b),
                       "end": s + g * rng.randint(0, 2), "gran": g, "util": _util(b)})
            b.edge(m, c)
        return m
    if kind == "wchoose":
        parts = _parts(b)
        gran = _wgran(b)
        s = _wstart(b, gran)
        e = s + gran * rng.randint(0, 3)
        b.options += 1 + (e - s) // max(1, gran)
        return b.add({"type": "wchoose", "name": name, "parts": parts, "n": _amount(b, parts), "start": s, "dur": _dur(b), "end": e,
                      "gran": gran, "util": _util(b)})
    # malleable: its own step is the capacity grid or (aligned classes) a multiple of it
    parts = _parts(b)
    g = b.o["grid"]
    if b.o["aligned"] and b.o.get("mchoose_coarser_step") and rng.random() < 0.5:
        g = g * 2
        s = max(0, (b.spec["now"] // g) * g + g * rng.randint(0, 2))
    else:
        s = _grid_time(b, 0, 3)
    nsl = rng.randint(1, 3)
    e = s + g * nsl
    qs = sum(p["q"] for p in b.spec["partitions"] if p["id"] in parts)
    b.options += 3 * nsl
    return b.add({"type": "mchoose", "name": name, "parts": parts, "slots": rng.randint(1, max(1, min(4, qs * nsl))), "start": s,
                  "end": e, "gran": g, "util": _util(b)})


def _graph(b):
    """a task graph lowered the way the simulator's TetriSched front-end does it: every task is one
    expression, LessThan(task, Min(children)) orders it before its children, a task with several
    parents is shared between their sub-trees, the roots are collated under one Min."""
    rng = b.rng
    k = rng.randint(2, 4)
    tasks = [_task(b) for _ in range(k)]
    kids = {i: [j for j in range(i + 1, k) if rng.random() < 0.5] for i in range(k)}
    has_parent = {j for i in kids for j in kids[i]}
    memo = {}

    def expr(i):
        if i in memo:
            return memo[i]
        cs = [expr(j) for j in kids[i]]
        if not cs:
            memo[i] = tasks[i]
            return tasks[i]
        if len(cs) > 1:
            c = b.add({"type": "min", "name": f"g{tasks[i]}_children"})
            for x in dict.fromkeys(cs):
                b.edge(c, x)
        else:
            c = cs[0]
        lt = b.add({"type": "lessthan", "name": f"g{tasks[i]}_less_than"})
        b.edge(lt, tasks[i])
        b.edge(lt, c)
        memo[i] = lt
        return lt
    roots = [expr(i) for i in range(k) if i not in has_parent]
    if len(roots) == 1 and rng.random() < 0.5:
        return roots[0]
    top = b.add({"type": "min", "name": f"graph{len(b.spec['nodes'])}"})
    for r in roots:
        b.edge(top, r)
    return top


def _ordered_alternatives(b):
    """LessThan(Max(alternatives of one task with DIFFERENT run times, the long one first), Max(a task that must start
    right after one of the short, late alternatives)): what the pruning passes have to reason about when they turn
    'must end by X' into 'must start by X - duration'."""
    rng = b.rng
    g = b.o["grid"]
    parts = _parts(b)
    n = _amount(b, parts)
    b.ntask += 1
    name_a = f"t{b.ntask}"
    base = max(0, (b.spec["now"] // g) * g + g * rng.randint(-1, 2))
    ma = b.add({"type": "max", "name": f"{name_a}_max"})
    long_d = g * rng.randint(3, 5)
    alts = [(base, long_d)]
    t = base + g * rng.randint(1, 4)
    for _ in range(rng.randint(1, 2)):
        alts.append((t, g * rng.randint(1, 2)))
        t += g * rng.randint(1, 3)
    for (st, d) in alts:
        b.options += 1
        b.edge(ma, b.add({"type": "choose", "name": name_a, "parts": parts, "n": n, "start": st, "dur": d, "util": _util(b)}))
    b.ntask += 1
    name_b = f"t{b.ntask}"
    anchor = rng.choice(alts[1:])
    if rng.random() < 0.45:
        # the second child is a bare leaf: its start is a constant of the model, the first child's end is not
        b.options += 1
        nb = n if rng.random() < 0.5 else 1
        mb = b.add({"type": "choose", "name": name_b, "parts": parts, "n": nb, "start": anchor[0] + anchor[1] + g * rng.randint(0, 1),
                    "dur": g * rng.randint(1, 2), "util": _util(b)})
    else:
        mb = b.add({"type": "max", "name": f"{name_b}_max"})
        for k in range(rng.randint(1, 2)):
            b.options += 1
            b.edge(mb, b.add({"type": "choose", "name": name_b, "parts": parts, "n": n, "start": anchor[0] + anchor[1] + g * rng.randint(0, 1) + g * k,
                              "dur": g * rng.randint(1, 2), "util": _util(b)}))
    lt = b.add({"type": "lessthan", "name": f"lt{len(b.spec['nodes'])}"})
    b.edge(lt, ma)
    b.edge(lt, mb)
    return lt


def _composite(b, depth):
    rng = b.rng
    if b.o.get("p_ordered_alternatives") and depth >= 1 and rng.random() < b.o["p_ordered_alternatives"] \
            and b.options < b.o["max_options"] - 2:
        n = _ordered_alternatives(b)
        b.composites.append(n)
        return n
    if depth >= 2 and b.options < b.o["max_options"] - 1 and rng.random() < b.o["share"]:
        return _graph(b)
    if depth <= 0 or b.options >= b.o["max_options"] or rng.random() < 0.4:
        n = _task(b)
        b.composites.append(n)
        return n
    r = rng.random()
    if r < 0.4:
        n = b.add({"type": "min", "name": f"min{len(b.spec['nodes'])}"})
        seen = set()
        for _ in range(rng.randint(1, 3)):
            c = _composite(b, depth - 1)
            if c in seen:
                continue
            seen.add(c)
            b.edge(n, c)
    elif r < 0.8:
        n = b.add({"type": "lessthan", "name": f"lt{len(b.spec['nodes'])}"})
        c1 = _composite(b, depth - 1)
        c2 = _composite(b, depth - 1)
        if c2 == c1:
            c2 = _task(b)
        b.edge(n, c1)
        b.edge(n, c2)
    else:
        n = b.add({"type": "scale", "name": f"sc{len(b.spec['nodes'])}", "factor": rng.choice([2, 3, 0.5, 10]),
                   "disregard": rng.random() < 0.25})
        b.edge(n, _composite(b, depth - 1))
    b.composites.append(n)
    return n


def gen_spec(seed_parts, cls="plain"):
    """cls: plain (static discretisation 1), coarse (static > 1, grid-aligned), misaligned (static > 1, starts off grid),
    dynamic (explicit ranges), passes (optimisation passes on a unit discretisation), dynpass (dynamic pass)."""
    from ..common import seed_int
    rng = random.Random(seed_int("c20", *seed_parts))
    nparts = rng.choice([1, 1, 2, 2, 3])
    spec = {"now": rng.choice([0, 0, 2, 4, 5, 9]), "disc": 1, "ranges": [], "passes": [], "dyn": None,
            "partitions": [{"id": i + 1, "name": f"p{i + 1}", "q": rng.choice([1, 1, 2, 2, 3, 4])} for i in range(nparts)],
            "nodes": [], "edges": [], "root": 0, "cls": cls}
    grid = 1
    aligned = True
    if cls in ("coarse", "misaligned"):
        grid = rng.choice([2, 2, 3, 4])
        spec["disc"] = grid
        aligned = cls == "coarse"
    elif cls == "dynamic":
        grid = rng.choice([1, 2])
    elif cls == "passes":
        ps = [p for p in PASSES[:2] if rng.random() < 0.7] or [rng.choice(PASSES[:2])]
        spec["passes"] = ps
        if rng.random() < 0.3:
            grid = 2
            spec["disc"] = 2
    elif cls == "dynpass":
        spec["passes"] = [p for p in PASSES[:2] if rng.random() < 0.4] + [PASSES[2]]
        rng.shuffle(spec["passes"])
        spec["dyn"] = (1, rng.choice([2, 3, 5]))
    kinds = {"choose": 4, "max": 4, "wchoose": 2, "mchoose": 0.5, "alloc": 1.2}
    if cls == "dynpass":
        kinds["mchoose"] = 0
    opts = {"grid": grid, "aligned": aligned, "kinds": kinds, "share": 0.3, "max_options": rng.choice([4, 6, 8])}
    if cls in ("plain", "coarse"):
        opts["mchoose_coarser_step"] = True
        kinds["mchoose"] = 1.2
    if cls in ("passes", "dynpass"):
        # the passes reason about durations: give the alternatives of one task different run times more often, and
        # more tasks with alternatives
        opts["p_other_strategy"] = 0.6
        kinds["max"] = 7
        opts["p_ordered_alternatives"] = 0.3
        # task-graph shaped sharing (LessThan(task, Min(parallel children))) is what the purge pass reasons about
        opts["share"] = 0.55
    else:
        opts["p_ordered_alternatives"] = 0.12  # the same directed shape without the passes: the ordering row alone must hold
    b = _B(rng, spec, opts)
    root = b.add({"type": "objective", "name": "obj"})
    seen = set()
    for _ in range(rng.randint(1, 3)):
        c = _composite(b, rng.choice([1, 2, 2, 3]))
        if c in seen:
            continue
        seen.add(c)
        b.edge(root, c)
    if cls == "dynamic":
        times = [n["start"] for n in spec["nodes"] if "start" in n]
        lo = min(times + [spec["now"]])
        lo = (lo // 2) * 2 if grid == 2 else lo
        cut1 = lo + 2 * rng.randint(1, 3)
        cut2 = cut1 + 4 * rng.randint(1, 2)
        g1 = grid
        g2 = rng.choice([2, 4]) if grid == 2 else rng.choice([1, 2])
        g3 = rng.choice([2, 4])
        spec["ranges"] = [(lo, cut1, g1), (cut1, cut2, g2), (cut2, cut2 + 64, g3)]
    spec["grid"] = grid
    spec["aligned"] = aligned
    return spec
