"""Runs one spec through the sanitized driver: model dump -> MILP (gurobipy, translated with
the rules of GurobiSolver::translateModel) -> many solutions under the real and hostile
objectives -> each written back into a freshly compiled tree -> populateResults() dump ->
oracle.  Also compares the model optimum with the brute-force optimum."""
import os
import random
import subprocess

from . import gen, oracle

ASAN_ENV = {"ASAN_OPTIONS": "detect_leaks=0:abort_on_error=0:halt_on_error=1:exitcode=97",
            "UBSAN_OPTIONS": "print_stacktrace=1:halt_on_error=1:exitcode=98"}
TOOL_LIMIT = "size-limited"


class Driver:
    def __init__(self, driver, spec_text, workdir, tag):
        workdir = os.path.abspath(workdir)
        os.makedirs(workdir, exist_ok=True)
        # the library's "necessary" timers append to libtetrisched_performance.csv in the
        # current directory: give every driver its own scratch directory as cwd
        self.cwd = os.path.join(workdir, f"{tag}.cwd")
        os.makedirs(self.cwd, exist_ok=True)
        self.path = os.path.join(workdir, f"{tag}.spec")
        with open(self.path, "w") as f:
            f.write(spec_text)
        self.errpath = os.path.join(workdir, f"{tag}.err")
        self.err = open(self.errpath, "w")
        env = dict(os.environ)
        env.update(ASAN_ENV)
        self.p = subprocess.Popen([driver, self.path], stdin=subprocess.PIPE, stdout=subprocess.PIPE, stderr=self.err, text=True,
                                  env=env, bufsize=1, cwd=self.cwd)
        self.timed_out = False
        self.starved = False

    def _cpu_seconds(self):
        """CPU time (user + system) the driver process has consumed so far; None if it cannot be read"""
        try:
            with open(f"/proc/{self.p.pid}/stat") as f:
                fields = f.read().rsplit(")", 1)[1].split()
            return (int(fields[11]) + int(fields[12])) / os.sysconf("SC_CLK_TCK")
        except Exception:
            return None

    def _arm(self, cpu_limit_s, wall_limit_s):
        """Watchdog of one driver step.  The verdict 'hang' is decided on the CPU time the driver itself burnt in this step
        (the known hangs are busy loops of 2^32 iterations; a legitimate step takes milliseconds), never on wall-clock time:
        on a loaded machine a starved driver is killed after a generous wall-clock limit and reported as `starved`, which
        is tooling-inconclusive, not a violation."""
        import threading
        import time as _t
        cpu0 = self._cpu_seconds() or 0.0
        t0 = _t.time()
        stop = threading.Event()

        def watch():
            while not stop.wait(0.25):
                if self.p.poll() is not None:
                    return
                cpu = self._cpu_seconds()
                if cpu is not None and cpu - cpu0 > cpu_limit_s:
                    self.timed_out = True
                elif _t.time() - t0 > wall_limit_s:
                    self.starved = True
                else:
                    continue
                try:
                    self.p.kill()
                except Exception:
                    pass
                return
        th = threading.Thread(target=watch, daemon=True)
        th.start()
        return stop

    def read_until(self, end, watchdog_s=12):
        """a step of the driver that burns more than `watchdog_s` CPU-seconds is a hang (the trees are tiny: a compile takes
        milliseconds); the process is killed and the caller sees EOF + timed_out (or + starved, see _arm)."""
        lines = []
        stop = self._arm(watchdog_s, 600)
        try:
            while True:
                ln = self.p.stdout.readline()
                if ln == "":
                    return lines, False
                ln = ln.rstrip("\n")
                if ln == end:
                    return lines, True
                lines.append(ln)
        finally:
            stop.set()

    def send(self, line):
        try:
            self.p.stdin.write(line + "\n")
            self.p.stdin.flush()
            return True
        except (BrokenPipeError, OSError):
            return False

    def close(self):
        try:
            self.send("QUIT")
            self.p.stdin.close()
        except Exception:
            pass
        try:
            rc = self.p.wait(timeout=60)
        except subprocess.TimeoutExpired:
            self.p.kill()
            rc = -9
        self.err.close()
        with open(self.errpath) as f:
            err = f.read()
        for pth in (self.path, self.errpath):
            try:
                os.remove(pth)
            except OSError:
                pass
        import shutil
        shutil.rmtree(self.cwd, ignore_errors=True)
        return rc, err


def parse_model(lines):
    vars_, cons, obj = [], [], None
    for ln in lines:
        tok = ln.split(" ")
        if tok[0] == "VAR":
            vars_.append({"type": tok[2], "lb": None if tok[3] == "-" else float(tok[3]), "ub": None if tok[4] == "-" else float(tok[4]),
                          "name": tok[5] if len(tok) > 5 else ""})
        elif tok[0] == "CON":
            n = int(tok[5])
            terms = []
            for t in tok[6:6 + n]:
                c, k = t.rsplit(":", 1)
                terms.append((float(c), k))
            cons.append({"active": tok[1] == "1", "type": tok[2], "rhs": float(tok[3]), "name": tok[4], "terms": terms})
        elif tok[0] == "OBJ":
            n = int(tok[2])
            terms = []
            for t in tok[3:3 + n]:
                c, k = t.rsplit(":", 1)
                terms.append((float(c), k))
            obj = {"sense": tok[1], "terms": terms}
    return vars_, cons, obj


def build_gurobi(vars_, cons, obj):
    """translation rules of GurobiSolver: absent lower bound = 0, absent upper bound = +inf, indicator = binary,
    only active constraints, a constant on a constraint's left-hand side is an error."""
    import gurobipy as gp
    from gurobipy import GRB
    m = gp.Model()
    m.Params.OutputFlag = 0
    m.Params.LogToConsole = 0
    m.Params.Threads = 1
    m.Params.MIPGap = 0
    m.Params.MIPGapAbs = 0
    m.Params.TimeLimit = 20
    xs = []
    for v in vars_:
        lb = 0.0 if v["lb"] is None else v["lb"]
        ub = GRB.INFINITY if v["ub"] is None else v["ub"]
        vt = {"B": GRB.BINARY, "I": GRB.INTEGER, "C": GRB.CONTINUOUS}[v["type"]]
        xs.append(m.addVar(lb=lb, ub=ub, vtype=vt))
    m.update()
    problems = []
    for c in cons:
        if not c["active"]:
            continue
        e = gp.LinExpr()
        for coef, k in c["terms"]:
            if k == "-1" or k.startswith("?"):
                problems.append(f"constraint {c['name']} has a term without a model variable ({k})")
                continue
            e.add(xs[int(k)], coef)
        if c["type"] == "LE":
            m.addConstr(e <= c["rhs"])
        elif c["type"] == "GE":
            m.addConstr(e >= c["rhs"])
        else:
            m.addConstr(e == c["rhs"])
    oe = gp.LinExpr()
    if obj:
        for coef, k in obj["terms"]:
            if k == "-1":
                oe.addConstant(coef)
            elif k.startswith("?"):
                problems.append(f"objective has a term on a variable that is not in the model ({k})")
            else:
                oe.add(xs[int(k)], coef)
    return m, xs, oe, problems


def _solve(m):
    import gurobipy as gp
    try:
        m.optimize()
    except gp.GurobiError as e:
        if TOOL_LIMIT in str(e):
            return "tool_limit"
        raise
    return m.Status


def enumerate_solutions(m, xs, oe, vars_, rng, max_solutions, counters):
    """returns (status of the real objective, optimum, [solution vectors])."""
    from gurobipy import GRB
    sols, seen = [], set()

    def harvest(limit):
        n = 0
        for k in range(m.SolCount):
            m.Params.SolutionNumber = k
            vec = tuple(int(round(x.Xn)) if vars_[i]["type"] != "C" else x.Xn for i, x in enumerate(xs))
            if vec not in seen:
                seen.add(vec)
                sols.append(vec)
                n += 1
                if n >= limit:
                    break
    m.Params.PoolSearchMode = 2
    m.Params.PoolSolutions = 40
    m.setObjective(oe, GRB.MAXIMIZE)
    st = _solve(m)
    if st == "tool_limit":
        return "tool_limit", None, []
    opt = None
    if st == GRB.OPTIMAL:
        opt = m.ObjVal
        harvest(25)
    elif st in (GRB.INFEASIBLE, GRB.INF_OR_UNBD):
        return "infeasible", None, []
    elif st == GRB.UNBOUNDED:
        return "unbounded", None, []
    else:
        return f"status{st}", None, []
    import gurobipy as gp
    bounded = [i for i, v in enumerate(vars_) if v["type"] == "B" or (v["ub"] is not None)]
    alloc = [i for i in bounded if "_using_partition_" in vars_[i]["name"]]
    objs = []
    if alloc:
        objs.append(("pack", gp.quicksum(xs[i] for i in alloc), GRB.MAXIMIZE))
    objs.append(("minutil", oe, GRB.MINIMIZE))
    for r in range(3):
        e = gp.LinExpr()
        for i in bounded:
            e.add(xs[i], rng.choice([-2, -1, 0, 1, 1, 2, 3]))
        objs.append((f"rand{r}", e, GRB.MAXIMIZE))
    for name, e, sense in objs:
        if len(sols) >= max_solutions:
            break
        m.setObjective(e, sense)
        st2 = _solve(m)
        if st2 == GRB.OPTIMAL or (isinstance(st2, int) and m.SolCount > 0):
            harvest(12)
            counters[f"objective_{name.rstrip('012')}"] = counters.get(f"objective_{name.rstrip('012')}", 0) + 1
    return "optimal", opt, sols[:max_solutions]


def parse_solution(lines):
    out = {"util": None, "expr": {}, "place": {}, "exc": None}
    for ln in lines:
        tok = ln.split(" ")
        if tok[0] == "EXC":
            out["exc"] = ln
        elif tok[0] == "UTIL":
            out["util"] = (float(tok[1]), None if tok[2] == "-" else float(tok[2]))
        elif tok[0] == "EXPR":
            i = int(tok[1])
            if tok[4] == "nosolution":
                out["expr"][i] = {"type": "nosolution"}
            else:
                out["expr"][i] = {"type": tok[4], "utility": None if tok[5] == "-" else float(tok[5]),
                                  "start": None if tok[6] == "-" else int(tok[6]), "end": None if tok[7] == "-" else int(tok[7]),
                                  "nplace": int(tok[8])}
        elif tok[0] == "PLACE":
            n = int(tok[5])
            allocs = []
            for t in tok[6:6 + n]:
                pid, tt, q = t.split(":")
                allocs.append((int(pid), int(tt), float(q)))
            out["place"][tok[1]] = {"placed": tok[2] == "1", "start": None if tok[3] == "-" else int(tok[3]),
                                    "end": None if tok[4] == "-" else int(tok[4]), "allocs": allocs}
    return out


def check_solution(tree, sol, vec, obj, report):
    """the validity oracle for one read-back solution.  report(kind, detail)."""
    nodes = tree.nodes
    live = tree.live()
    R = {}
    # literal utility clause
    mine = 0.0
    for coef, k in obj["terms"]:
        mine += coef if k == "-1" else coef * vec[int(k)]
    const = sum(coef for coef, k in obj["terms"] if k == "-1")
    mo, ru = sol["util"]
    if ru is None or abs(mo - ru) > 1e-6 or abs(mine - mo) > 1e-6:
        report("utility_not_objective", f"objective evaluated on the solution {mine:g}, model reports {mo:g}, root expression reports {ru}")
    for name, pl in sorted(sol["place"].items()):
        if not pl["placed"] or pl["start"] is None or pl["end"] is None:
            report("placement_not_placed", f"task {name}: returned among the placements but isPlaced() is false")
            continue
        cands = [i for i in tree.reach if nodes[i]["type"] in oracle.CHOOSELIKE and nodes[i]["name"] == name
                 and sol["expr"].get(i, {}).get("utility") not in (None, 0.0)]
        if not cands:
            report("placement_for_unsatisfied_leaf", f"task {name}: placement {pl} but no Choose of that task reports utility")
            continue
        if len(cands) > 1:
            # two alternatives of one task both satisfied: which one is the placement?  (Max violation is reported below)
            exact = [i for i in cands if nodes[i].get("start") == pl["start"]]
            cands = exact or cands
        l = cands[0]
        nd = nodes[l]
        tot = sum(q for _, _, q in pl["allocs"])
        pids = {p for p, _, _ in pl["allocs"]}
        if any(abs(q - round(q)) > 1e-6 or q < 0 for _, _, q in pl["allocs"]):
            report("fractional_allocation", f"task {name}: {pl['allocs']}")
        if not pids <= set(nd["parts"]):
            report("allocation_outside_partitions", f"task {name}: allocated on {sorted(pids)}, allowed {nd['parts']}")
        if nd["type"] == "mchoose":
            alloc = {}
            for p, tt, q in pl["allocs"]:
                alloc[(p, tt)] = alloc.get((p, tt), 0) + int(round(q))
                if not (nd["start"] <= tt < nd["end"]) or (tt - nd["start"]) % nd["gran"]:
                    report("malleable_cell_outside_window", f"task {name}: cell at {tt}, window [{nd['start']}, {nd['end']}) step {nd['gran']}")
            if abs(tot - nd["slots"]) > 1e-6:
                report("wrong_amount", f"MalleableChoose {name}: {tot:g} resource-time slots allocated, {nd['slots']} requested")
            cells = sorted({tt for (_, tt) in alloc})
            if cells and (pl["start"] != cells[0] or pl["end"] != cells[-1] + nd["gran"]):
                report("malleable_span_not_cells", f"MalleableChoose {name}: reported [{pl['start']}, {pl['end']}), occupied cells start at {cells} "
                       f"and last {nd['gran']} each")
            if cells:
                R[l] = (cells[0], cells[-1] + nd["gran"], alloc)
            continue
        alloc = {}
        for p, tt, q in pl["allocs"]:
            alloc[p] = alloc.get(p, 0) + int(round(q))
            if tt != pl["start"]:
                report("allocation_time_not_start", f"task {name}: allocation at {tt}, placement starts at {pl['start']}")
        if abs(tot - nd["n"]) > 1e-6:
            report("wrong_amount", f"{nd['type']} {name}: {tot:g} allocated, {nd['n']} requested")
        if pl["end"] - pl["start"] != nd["dur"]:
            report("wrong_duration", f"{nd['type']} {name}: placed [{pl['start']}, {pl['end']}), duration {nd['dur']} requested")
        if nd["type"] == "choose" and pl["start"] != nd["start"]:
            report("wrong_start", f"Choose {name}: placed at {pl['start']}, Choose is for {nd['start']}")
        if nd["type"] == "wchoose":
            if pl["start"] not in tree.windowed_options(nd, documented=True):
                kind = "windowed_start_outside_window" if not (nd["start"] <= pl["start"] <= nd["end"]) else "windowed_start_off_grid"
                report(kind, f"WindowedChoose {name}: placed at {pl['start']}, window [{nd['start']}, {nd['end']}] step {nd['gran']}")
        R[l] = (pl["start"], pl["end"], alloc)
    for pid, tt, u, q in oracle.capacity_violations(tree, R)[:3]:
        report("capacity_exceeded", f"partition {pid} at t={tt}: {u} used, quantity {q}")
    ev = oracle.Eval(tree, R)
    for kind, detail in ev.structure_violations():
        report(kind, detail)
    ref = ev.U(tree.root)
    if ru is not None and abs(ref - (ru - const)) > 1e-6:
        report("utility_vs_placements_mismatch", f"root reports utility {ru:g} (of which {const:g} is a constant of the objective); the expression "
               f"evaluated on the returned placements is worth {ref:g}")
    return R


def run_spec(driver, spec, workdir, tag, rng, max_solutions=60, brute_budget=200000):
    """returns dict(status, counters, violations [(kind, detail)], facts)"""
    counters, viol = {}, []
    facts = {"cls": spec.get("cls"), "disc": spec["disc"], "aligned": spec.get("aligned"), "passes": spec.get("passes")}

    def bump(k, n=1):
        counters[k] = counters.get(k, 0) + n

    def report(kind, detail):
        if not any(v[0] == kind for v in viol) or len(viol) < 8:
            viol.append((kind, detail))
    tree = oracle.Tree(spec)
    d = Driver(driver, gen.to_text(spec), workdir, tag)
    lines, ok = d.read_until("END")
    status = "ok"
    nsol = 0
    opt = None
    if not ok:
        status = "hang" if d.timed_out else ("starved" if d.starved else "driver_died")
    elif any(ln.startswith("EXC") for ln in lines):
        status = "compile_exception"
        msg = [ln for ln in lines if ln.startswith("EXC")][0]
        facts["exception"] = msg[:200]
    else:
        vars_, cons, obj = parse_model(lines)
        bump("model_variables", len(vars_))
        bump("model_constraints", len(cons))
        bump("inactive_constraints", sum(1 for c in cons if not c["active"]))
        m, xs, oe, problems = build_gurobi(vars_, cons, obj)
        for p in problems:
            report("untranslatable_model", p)
        st, opt, sols = enumerate_solutions(m, xs, oe, vars_, rng, max_solutions, counters)
        m.dispose()
        if opt is not None:
            opt -= sum(coef for coef, k in obj["terms"] if k == "-1")  # constants never change the arg-max
        facts["solve"] = st
        if st == "tool_limit":
            status = "tool_limit"
        elif st == "infeasible":
            status = "infeasible"
        elif st != "optimal":
            status = st
        for vec in sols:
            if not d.send("SOL " + " ".join(str(v) for v in vec)):
                status = "driver_died"
                break
            sl, ok = d.read_until("ENDSOL")
            if not ok:
                status = "readback_hang" if d.timed_out else ("starved" if d.starved else "driver_died")
                break
            sol = parse_solution(sl)
            if sol["exc"]:
                report("readback_exception", sol["exc"][:300])
                continue
            nsol += 1
            R = check_solution(tree, sol, vec, obj, report)
            if R:
                bump("solutions_with_placements")
            bump("placements_checked", len(R))
    rc, err = d.close()
    if status == "hang":
        report("compile_hang", "the library burnt more than 12 CPU-seconds compiling this tree without finishing (a tree of "
               f"{len(spec['nodes'])} nodes); passes {spec.get('passes')}")
    elif status == "readback_hang":
        report("readback_hang", f"populateResults() burnt more than 12 CPU-seconds on a tree of {len(spec['nodes'])} nodes")
    elif status == "starved":
        bump("driver_starved")  # killed by the wall-clock limit with little CPU used: the machine, not the library
    elif rc != 0 or "Sanitizer" in err or "runtime error:" in err:
        status = "sanitizer" if ("Sanitizer" in err or "runtime error:" in err) else f"driver_rc_{rc}"
        report("sanitizer_report" if status == "sanitizer" else "driver_crashed", err.strip()[:1200] or f"exit code {rc}")
    bump("solutions_checked", nsol)
    out = {"status": status, "counters": counters, "violations": viol, "facts": facts, "opt": opt, "nsol": nsol}
    # ---- optimum against the reference -------------------------------------------------
    if status in ("ok", "infeasible"):
        exact = oracle.brute_optimum(tree, None, brute_budget)
        if exact is None:
            bump("brute_force_skipped_budget")
        else:
            bump("brute_force_done")
            bump("brute_force_nodes", exact[2])
            ref = exact[0] if exact[0] is not None else 0.0
            out["ref"] = ref
            if ref > 1e-9:
                bump("reference_optimum_positive")
            if status == "infeasible":
                report("model_infeasible", f"the generated model has no solution at all; the expression is worth {ref:g} (leaving everything unplaced is always allowed)")
            else:
                unit = _unit_discretisation(spec)
                if opt > ref + 1e-6:
                    report("optimum_above_reference", f"model optimum {opt:g} > brute-force optimum {ref:g} of the expression")
                elif unit and opt < ref - 1e-6:
                    report("optimum_below_reference", f"model optimum {opt:g} < brute-force optimum {ref:g} at unit discretisation (passes {spec.get('passes')})")
                elif not unit and spec.get("cls") == "coarse" and not spec.get("passes"):
                    g = spec["disc"]
                    sl = oracle.brute_optimum(tree, lambda a, b, g=g: range((a // g) * g, b, g), brute_budget)
                    if sl is not None:
                        bump("slot_reference_done")
                        sref = sl[0] if sl[0] is not None else 0.0
                        out["slot_ref"] = sref
                        if opt < sref - 1e-6:
                            report("coarse_optimum_below_slot_reference", f"model optimum {opt:g} < {sref:g}, the best configuration in which every placement occupies each {g}-slot it touches")
                if not unit and opt < ref - 1e-6:
                    bump("coarse_lost_utility")
                if abs(opt - ref) <= 1e-6:
                    bump("optimum_equal_reference")
    return out


def _unit_discretisation(spec):
    if "DYNAMIC_DISCRETIZATION_PASS" in (spec.get("passes") or []):
        return False
    if spec.get("ranges"):
        return False
    return spec["disc"] == 1
