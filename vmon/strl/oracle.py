"""Reference semantics of STRL (written from the language description in Expression.hpp, not
from the lowering), the validity oracle over read-back placements, and the brute-force
optimum.

Conventions fixed here (see DESIGN C20):
 * a leaf is *absent* when it can no longer be placed (Choose/Malleable start before now,
   Windowed with every option gone, no common partition); Max ignores absent children;
   Min / LessThan / Scale with an absent child are absent; Objective ignores absent children.
 * S(node): Choose-like leaf = it has a read-back placement; Allocation = always; Scale =
   child; Max = exactly one child; Min = all children; LessThan = both children and
   end(first) <= start(second) over the realised leaves; Objective = any.
 * a configuration is *valid* when capacity holds at every unit instant (placements plus
   running Allocations), no Max has two realised children, every Min / LessThan with a
   realised leaf beneath it is satisfied.
 * utility: leaf utility, summed upwards; Scale multiplies (or, with disregard, pays the
   factor once for a satisfied child); an unsatisfied Min / LessThan pays 0.  Constants of
   the objective (the library pays 1 for a Min that cannot be unsatisfied, and the factor
   of a disregard-Scale over such a child) never change the arg-max: both sides of every
   comparison are taken without them.
"""
import itertools

CHOOSELIKE = ("choose", "wchoose", "mchoose")


class Tree:
    def __init__(self, spec):
        self.spec = spec
        self.nodes = spec["nodes"]
        self.now = spec["now"]
        self.ch = {i: [] for i in range(len(self.nodes))}
        for p, c in spec["edges"]:
            self.ch[p].append(c)
        self.root = spec["root"]
        self.q = {p["id"]: p["q"] for p in spec["partitions"]}
        self.reach = self._reach(self.root)
        self._present = {}
        self._const = {}
        self._vartime = {}

    def _reach(self, n):
        seen, st = set(), [n]
        while st:
            x = st.pop()
            if x in seen:
                continue
            seen.add(x)
            st.extend(self.ch[x])
        return seen

    def leaves_under(self, n):
        return [i for i in self._reach(n) if self.nodes[i]["type"] in CHOOSELIKE]

    def allocs_under(self, n):
        return [i for i in self._reach(n) if self.nodes[i]["type"] == "alloc"]

    # -- leaf option sets -------------------------------------------------
    def windowed_options(self, nd, documented=True):
        g = nd["gran"]
        lo = -(-nd["start"] // g) * g
        if documented:
            return [t for t in range(lo, nd["end"] + 1, g)]
        hi = -(-nd["end"] // g) * g
        bound = -(-(nd["end"] + nd["dur"]) // g) * g
        return [t for t in range(lo, hi + 1, g) if t + nd["dur"] <= bound]

    def present(self, i):
        if i in self._present:
            return self._present[i]
        nd = self.nodes[i]
        t = nd["type"]
        if t == "choose":
            r = self.now <= nd["start"] and len(nd["parts"]) > 0
        elif t == "mchoose":
            r = self.now <= nd["start"]
        elif t == "wchoose":
            r = self.now <= nd["end"] and len(self.windowed_options(nd, False)) > 0
        elif t == "alloc":
            r = True
        elif t == "max":
            r = any(self.present(c) for c in self.ch[i])
        elif t in ("min", "scale"):
            r = all(self.present(c) for c in self.ch[i])
        elif t == "lessthan":
            c1, c2 = self.ch[i]
            r = self.present(c1) and self.present(c2)
            if r and not self.vartime_end(c1) and not self.vartime_start(c2):
                r = self.const_end(c1) <= self.const_start(c2)
        else:
            r = True
        self._present[i] = r
        return r

    # constant-time structure (which parse results carry fixed instants)
    def vartime_start(self, i):
        t = self.nodes[i]["type"]
        if t in ("choose", "alloc"):
            return False
        if t == "scale":
            return self.vartime_start(self.ch[i][0])
        if t == "lessthan":
            return self.vartime_start(self.ch[i][0])
        return True

    def vartime_end(self, i):
        t = self.nodes[i]["type"]
        if t in ("choose", "alloc"):
            return False
        if t == "scale":
            return self.vartime_end(self.ch[i][0])
        if t == "lessthan":
            return self.vartime_end(self.ch[i][1])
        return True

    def const_start(self, i):
        nd = self.nodes[i]
        if nd["type"] in ("choose", "alloc"):
            return nd["start"]
        return self.const_start(self.ch[i][0])

    def const_end(self, i):
        nd = self.nodes[i]
        if nd["type"] in ("choose", "alloc"):
            return nd["start"] + nd["dur"]
        if nd["type"] == "lessthan":
            return self.const_end(self.ch[i][1])
        return self.const_end(self.ch[i][0])

    def always_satisfied(self, i):
        """can this node never be unsatisfied (constant indicator 1)?"""
        if i in self._const:
            return self._const[i]
        t = self.nodes[i]["type"]
        if t == "alloc":
            r = True
        elif t in CHOOSELIKE or t == "max":
            r = False
        elif t == "scale":
            r = self.always_satisfied(self.ch[i][0])
        elif t == "lessthan":
            c1, c2 = self.ch[i]
            r = (not self.vartime_end(c1) and not self.vartime_start(c2) and self.always_satisfied(c1)
                 and self.always_satisfied(c2))
        elif t == "min":
            r = all(self.always_satisfied(c) for c in self.ch[i])
        else:
            r = False
        self._const[i] = r
        return r

    def live(self):
        """nodes reachable from the root through present nodes only."""
        seen, st = set(), [self.root]
        while st:
            x = st.pop()
            if x in seen or not self.present(x):
                continue
            seen.add(x)
            st.extend(self.ch[x])
        return seen


# ---------------------------------------------------------------------------
# evaluation of a configuration R: {leaf index: (start, end, {pid: q} or {(pid, t): q})}
# ---------------------------------------------------------------------------
class Eval:
    def __init__(self, tree, R):
        self.t, self.R = tree, R
        self._S = {}

    def span(self, i):
        """(min start, max end) over realised leaves and Allocations beneath i, or None."""
        lo, hi = None, None
        for l in self.t._reach(i):
            nd = self.t.nodes[l]
            if nd["type"] == "alloc":
                s, e = nd["start"], nd["start"] + nd["dur"]
            elif l in self.R:
                s, e = self.R[l][0], self.R[l][1]
            else:
                continue
            lo = s if lo is None else min(lo, s)
            hi = e if hi is None else max(hi, e)
        return None if lo is None else (lo, hi)

    def any_under(self, i):
        return any(l in self.R for l in self.t.leaves_under(i))

    def S(self, i):
        if i in self._S:
            return self._S[i]
        t = self.t
        ty = t.nodes[i]["type"]
        if not t.present(i):
            r = False
        elif ty in CHOOSELIKE:
            r = i in self.R
        elif ty == "alloc":
            r = True
        elif ty == "scale":
            r = self.S(t.ch[i][0])
        elif ty == "max":
            r = sum(1 for c in t.ch[i] if c in self.R) == 1
        elif ty == "min":
            r = all(self.S(c) for c in t.ch[i])
        elif ty == "lessthan":
            c1, c2 = t.ch[i]
            r = self.S(c1) and self.S(c2)
            if r:
                a, b = self.span(c1), self.span(c2)
                if a is not None and b is not None and a[1] > b[0]:
                    r = False
        else:
            r = any(self.S(c) for c in t.ch[i])
        self._S[i] = r
        return r

    def U(self, i):
        t = self.t
        nd = t.nodes[i]
        ty = nd["type"]
        if not t.present(i):
            return 0.0
        if ty in CHOOSELIKE:
            return float(nd["util"]) if i in self.R else 0.0
        if ty == "alloc":
            return 0.0
        if ty == "scale":
            c = t.ch[i][0]
            if nd.get("disregard"):
                return float(nd["factor"]) if (self.S(c) and not t.always_satisfied(c)) else 0.0
            return float(nd["factor"]) * self.U(c)
        if ty == "max":
            return sum(self.U(c) for c in t.ch[i] if t.present(c))
        if ty == "min":
            if not self.S(i):
                return 0.0
            return sum(self.U(c) for c in t.ch[i])
        if ty == "lessthan":
            if not self.S(i):
                return 0.0
            return sum(self.U(c) for c in t.ch[i])
        return sum(self.U(c) for c in t.ch[i] if t.present(c))

    def structure_violations(self, strict=False):
        """[(kind, detail)] for live nodes.  strict (reference search only): a LessThan with a
        placed leaf beneath it must be satisfied as a whole, like a Min."""
        t = self.t
        out = []
        for i in sorted(t.live()):
            ty = t.nodes[i]["type"]
            nm = t.nodes[i]["name"]
            if ty == "max":
                k = [c for c in t.ch[i] if c in self.R]
                if len(k) > 1:
                    out.append(("max_more_than_one_child", f"Max {nm}: children {k} all placed"))
            elif ty == "min":
                if self.any_under(i) and not self.S(i):
                    miss = [t.nodes[c]["name"] for c in t.ch[i] if not self.S(c)]
                    out.append(("min_partially_satisfied", f"Min {nm}: leaves placed beneath it but children {miss} are not satisfied"))
            elif ty == "lessthan":
                c1, c2 = t.ch[i]
                if strict and self.any_under(i) and not self.S(i):
                    out.append(("lessthan_partially_satisfied", f"LessThan {nm}"))
                if self.S(c1) and self.S(c2):
                    a, b = self.span(c1), self.span(c2)
                    if a is not None and b is not None and a[1] > b[0] and (self.any_under(c1) or self.any_under(c2)):
                        out.append(("lessthan_order_violated", f"LessThan {nm}: first child ends at {a[1]} after the second starts at {b[0]}"))
        return out


def usage_profile(tree, R, extra_allocs=True):
    """{(pid, t): used} at unit instants."""
    use = {}

    def add(pid, a, b, q):
        for tt in range(a, b):
            use[(pid, tt)] = use.get((pid, tt), 0) + q
    for l, (s, e, alloc) in R.items():
        nd = tree.nodes[l]
        if nd["type"] == "mchoose":
            for (pid, tt), q in alloc.items():
                add(pid, tt, tt + nd["gran"], q)
        else:
            for pid, q in alloc.items():
                add(pid, s, e, q)
    if extra_allocs:
        for i in tree.reach:
            nd = tree.nodes[i]
            if nd["type"] == "alloc":
                for pid, q in nd["alloc"]:
                    add(pid, nd["start"], nd["start"] + nd["dur"], q)
    return use


def capacity_violations(tree, R):
    out = []
    for (pid, tt), u in sorted(usage_profile(tree, R).items()):
        if tt < tree.now:
            continue  # instants before now are history
        if u > tree.q[pid]:
            out.append((pid, tt, u, tree.q[pid]))
    return out


# ---------------------------------------------------------------------------
# brute-force optimum
# ---------------------------------------------------------------------------
def _splits(n, parts, caps):
    """all ways to take n units from the partitions (each at most its quantity)."""
    if not parts:
        if n == 0:
            yield {}
        return
    p = parts[0]
    for k in range(min(n, caps[p]), -1, -1):
        for rest in _splits(n - k, parts[1:], caps):
            d = dict(rest)
            if k:
                d[p] = k
            yield d


def leaf_choices(tree, l, slot=None):
    """placement options of a live leaf: [(start, end, alloc)]"""
    nd = tree.nodes[l]
    out = []
    if nd["type"] == "choose":
        for sp in _splits(nd["n"], nd["parts"], tree.q):
            out.append((nd["start"], nd["start"] + nd["dur"], sp))
    elif nd["type"] == "wchoose":
        for t0 in tree.windowed_options(nd):
            if t0 < 0:
                continue
            for sp in _splits(nd["n"], nd["parts"], tree.q):
                out.append((t0, t0 + nd["dur"], sp))
    else:  # malleable: any distribution of the slots over (partition, grid time)
        cells = [(p, t0) for p in nd["parts"] for t0 in range(nd["start"], nd["end"], nd["gran"])]
        caps = {c: tree.q[c[0]] for c in cells}
        for sp in _splits(nd["slots"], cells, caps):
            ts = sorted({c[1] for c in sp})
            if not ts:
                continue
            out.append((ts[0], ts[-1] + nd["gran"], sp))
    return out


def slot_usage_ok(tree, R, slots_of):
    """capacity under a slot discretisation: a placement occupies every slot it touches.
    slots_of(a, b) -> iterable of slot keys touched by [a, b)."""
    use = {}

    def add(pid, a, b, q):
        for k in slots_of(a, b):
            use[(pid, k)] = use.get((pid, k), 0) + q
    for l, (s, e, alloc) in R.items():
        nd = tree.nodes[l]
        if nd["type"] == "mchoose":
            for (pid, tt), q in alloc.items():
                add(pid, tt, tt + nd["gran"], q)
        else:
            for pid, q in alloc.items():
                add(pid, s, e, q)
    for i in tree.reach:
        nd = tree.nodes[i]
        if nd["type"] == "alloc":
            for pid, q in nd["alloc"]:
                add(pid, nd["start"], nd["start"] + nd["dur"], q)
    return all(u <= tree.q[pid] for (pid, k), u in use.items())


def brute_optimum(tree, slots_of=None, budget=300000):
    """max utility over valid configurations.  Returns (value, witness R, nodes visited) or None if the budget is exceeded."""
    live = tree.live()
    leaves = sorted(l for l in live if tree.nodes[l]["type"] in CHOOSELIKE)
    choices = {l: leaf_choices(tree, l) for l in leaves}
    best = [None, None]
    visited = [0]

    def feasible(R):
        if slots_of is None:
            return not capacity_violations(tree, R)
        return slot_usage_ok(tree, R, slots_of)

    class Over(Exception):
        pass

    def rec(k, R):
        visited[0] += 1
        if visited[0] > budget:
            raise Over()
        if k == len(leaves):
            ev = Eval(tree, R)
            if ev.structure_violations(strict=True):
                return
            u = ev.U(tree.root)
            if best[0] is None or u > best[0] + 1e-9:
                best[0], best[1] = u, dict(R)
            return
        l = leaves[k]
        rec(k + 1, R)
        for c in choices[l]:
            R[l] = c
            if feasible(R):
                rec(k + 1, R)
            del R[l]
    try:
        rec(0, {})
    except Over:
        return None
    return best[0], best[1], visited[0]


# ---------------------------------------------------------------------------
# structural facts of a tree (used to key known findings by mechanism)
# ---------------------------------------------------------------------------
def facts(tree):
    nodes, ch = tree.nodes, tree.ch
    memo_e, memo_s = {}, {}

    def earliest_end(i):
        if i in memo_e:
            return memo_e[i]
        nd = nodes[i]
        t = nd["type"]
        if t in ("choose", "alloc"):
            r = nd["start"] + nd["dur"]
        elif t == "wchoose":
            o = tree.windowed_options(nd, False)
            r = (min(o) + nd["dur"]) if o else 10 ** 9
        elif t == "mchoose":
            r = nd["start"] + nd["gran"]
        elif t == "max":
            r = min([earliest_end(c) for c in ch[i] if tree.present(c)] or [10 ** 9])
        elif t == "min":
            r = max(earliest_end(c) for c in ch[i])
        elif t == "lessthan":
            r = max(earliest_end(ch[i][1]), earliest_end(ch[i][0]))
        else:
            r = earliest_end(ch[i][0])
        memo_e[i] = r
        return r

    def latest_start(i):
        if i in memo_s:
            return memo_s[i]
        nd = nodes[i]
        t = nd["type"]
        if t in ("choose", "alloc"):
            r = nd["start"]
        elif t == "wchoose":
            o = tree.windowed_options(nd, False)
            r = max(o) if o else -1
        elif t == "mchoose":
            r = nd["end"] - nd["gran"]
        elif t == "max":
            r = max([latest_start(c) for c in ch[i] if tree.present(c)] or [-1])
        elif t == "min":
            r = min(latest_start(c) for c in ch[i])
        elif t == "lessthan":
            r = min(latest_start(ch[i][0]), latest_start(ch[i][1]))
        else:
            r = latest_start(ch[i][0])
        memo_s[i] = r
        return r
    # lower bound the lowering puts on a node's end time even when nothing is satisfied, and the
    # upper bound it puts on a node's start time in that state (see the LessThan finding)
    def const_indicator(i):
        return tree.always_satisfied(i)

    def forced_end(i):
        nd = nodes[i]
        t = nd["type"]
        if t == "alloc":
            return nd["start"] + nd["dur"]
        if t in CHOOSELIKE or t == "max":
            return 0
        if t == "scale":
            return forced_end(ch[i][0])
        if t == "lessthan":
            return forced_end(ch[i][1]) if tree.vartime_end(ch[i][1]) or const_indicator(ch[i][1]) else 0
        if t == "min":
            best = 0
            for c in ch[i]:
                if not tree.vartime_end(c):
                    if const_indicator(c):
                        best = max(best, tree.const_end(c))
                else:
                    best = max(best, forced_end(c))
            return best
        return 0

    def start_cap(i):
        nd = nodes[i]
        t = nd["type"]
        if t in ("choose", "alloc"):
            return nd["start"]
        if t == "wchoose":
            o = tree.windowed_options(nd, False)
            return min(o) if o else 0
        if t == "mchoose":
            return 0
        if t == "max":
            return min([start_cap(c) for c in ch[i] if tree.present(c)] or [0])
        if t == "min":
            return min(start_cap(c) for c in ch[i])
        return start_cap(ch[i][0])
    live = tree.live()
    unsat_lt = False
    for i in tree.reach:
        if nodes[i]["type"] == "lessthan" and len(ch[i]) == 2 and all(tree.present(c) for c in ch[i]):
            if forced_end(ch[i][0]) > start_cap(ch[i][1]):
                unsat_lt = True
    for i in tree.reach:
        if nodes[i]["type"] == "lessthan" and len(ch[i]) == 2:
            if earliest_end(ch[i][0]) > latest_start(ch[i][1]):
                unsat_lt = True
    mixed = False
    for i in tree.reach:
        if nodes[i]["type"] == "max":
            pres = [c for c in ch[i] if tree.present(c)]
            if len(pres) >= 2 and any(nodes[c]["type"] == "wchoose" for c in pres):
                mixed = True
    return {"order_bound_unconditional": unsat_lt, "max_with_windowed_and_sibling": mixed,
            "has_malleable": any(nodes[i]["type"] == "mchoose" for i in tree.reach),
            "has_shared": any(sum(1 for p, c in tree.spec["edges"] if c == i) > 1 for i in tree.reach)}
