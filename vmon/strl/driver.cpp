// C20 driver: builds an STRL expression tree with the real libtetrisched classes, repeats
// the body of Scheduler::registerSTRL (capacity map, optimisation passes, parse), dumps
// the generated model, and for each variable assignment read from stdin rebuilds the
// tree, writes the values into the variables and dumps populateResults().
//
// The class is named tetrisched::GoogleCPSolver on purpose: the library's headers declare
// a class of that name a friend of SolverModelT / VariableT / ConstraintT /
// ObjectiveFunctionT, which gives this harness read access to the model and write access
// to the solution values without editing the repository.
#include <algorithm>
#include <fstream>
#include <iomanip>
#include <iostream>
#include <map>
#include <sstream>
#include <string>
#include <vector>

#include "tetrisched/Expression.hpp"
#include "tetrisched/OptimizationPasses.hpp"

namespace tetrisched {
class GoogleCPSolver {
 public:
  static SolverModelPtr newModel() { return SolverModelPtr(new SolverModel()); }

  static std::vector<VariablePtr> orderedVariables(SolverModelPtr m) {
    std::vector<VariablePtr> v;
    for (const auto& [id, var] : m->modelVariables) v.push_back(var);
    std::sort(v.begin(), v.end(), [](const VariablePtr& a, const VariablePtr& b) { return a->getId() < b->getId(); });
    return v;
  }

  template <typename Terms>
  static void dumpTerms(std::ostream& os, const Terms& terms, const std::map<uint32_t, size_t>& index) {
    os << " " << terms.size();
    for (const auto& [coef, var] : terms) {
      if (var) {
        auto it = index.find(var->getId());
        if (it == index.end()) {
          os << " " << std::setprecision(17) << coef << ":?" << var->getName();
        } else {
          os << " " << std::setprecision(17) << coef << ":" << it->second;
        }
      } else {
        os << " " << std::setprecision(17) << coef << ":-1";
      }
    }
  }

  static void dump(SolverModelPtr m, std::ostream& os) {
    auto vars = orderedVariables(m);
    std::map<uint32_t, size_t> index;
    for (size_t k = 0; k < vars.size(); ++k) index[vars[k]->getId()] = k;
    for (size_t k = 0; k < vars.size(); ++k) {
      auto& v = vars[k];
      os << "VAR " << k << " " << (v->variableType == VAR_INDICATOR ? "B" : v->variableType == VAR_INTEGER ? "I" : "C") << " ";
      if (v->lowerBound.has_value()) os << std::setprecision(17) << v->lowerBound.value(); else os << "-";
      os << " ";
      if (v->upperBound.has_value()) os << std::setprecision(17) << v->upperBound.value(); else os << "-";
      os << " " << v->getName() << "\n";
    }
    std::vector<ConstraintPtr> cons;
    for (const auto& [id, c] : m->modelConstraints) cons.push_back(c);
    std::sort(cons.begin(), cons.end(), [](const ConstraintPtr& a, const ConstraintPtr& b) { return a->getId() < b->getId(); });
    for (auto& c : cons) {
      os << "CON " << (c->isActive() ? 1 : 0) << " "
         << (c->constraintType == CONSTR_LE ? "LE" : c->constraintType == CONSTR_EQ ? "EQ" : "GE") << " "
         << std::setprecision(17) << c->rightHandSide << " " << c->getName();
      dumpTerms(os, c->terms, index);
      os << "\n";
    }
    if (m->objectiveFunction) {
      os << "OBJ " << (m->objectiveFunction->objectiveType == OBJ_MAXIMIZE ? "MAX" : "MIN");
      dumpTerms(os, m->objectiveFunction->terms, index);
      os << "\n";
    } else {
      os << "OBJ NONE 0\n";
    }
    os << "END" << std::endl;
  }

  static bool setValues(SolverModelPtr m, const std::vector<double>& vals) {
    auto vars = orderedVariables(m);
    if (vars.size() != vals.size()) return false;
    for (size_t k = 0; k < vars.size(); ++k) vars[k]->solutionValue = vals[k];
    return true;
  }
};
}  // namespace tetrisched

using namespace tetrisched;

struct NodeSpec {
  std::string type, name;
  std::vector<std::string> args;
};

struct Spec {
  Time now = 0;
  Time disc = 1;
  std::vector<std::pair<TimeRange, Time>> ranges;
  std::vector<std::string> passes;
  std::vector<std::tuple<uint32_t, std::string, size_t>> partitions;
  std::vector<NodeSpec> nodes;
  std::vector<std::pair<size_t, size_t>> edges;
  size_t root = 0;
  Time minDisc = 1, maxDisc = 5;
};

static Spec readSpec(std::istream& in) {
  Spec s;
  std::string line;
  while (std::getline(in, line)) {
    std::istringstream ls(line);
    std::string kw;
    if (!(ls >> kw)) continue;
    if (kw == "now") ls >> s.now;
    else if (kw == "disc") ls >> s.disc;
    else if (kw == "range") { Time a, b, g; ls >> a >> b >> g; s.ranges.push_back({{a, b}, g}); }
    else if (kw == "pass") { std::string p; ls >> p; s.passes.push_back(p); }
    else if (kw == "dyn") { ls >> s.minDisc >> s.maxDisc; }
    else if (kw == "partition") { uint32_t id; std::string n; size_t q; ls >> id >> n >> q; s.partitions.push_back({id, n, q}); }
    else if (kw == "node") { NodeSpec n; size_t idx; ls >> idx >> n.type >> n.name; std::string a; while (ls >> a) n.args.push_back(a); s.nodes.push_back(n); }
    else if (kw == "edge") { size_t a, b; ls >> a >> b; s.edges.push_back({a, b}); }
    else if (kw == "root") ls >> s.root;
    else if (kw == "endspec") break;
  }
  return s;
}

struct Built {
  Partitions all;
  std::map<uint32_t, PartitionPtr> byId;
  std::vector<ExpressionPtr> nodes;
  ExpressionPtr root;
};

static Partitions parseParts(const std::string& csv, Built& b) {
  Partitions p;
  std::istringstream ss(csv);
  std::string tok;
  while (std::getline(ss, tok, ',')) p.addPartition(b.byId.at(static_cast<uint32_t>(std::stoul(tok))));
  return p;
}

static Built build(const Spec& s) {
  Built b;
  for (auto& [id, name, q] : s.partitions) {
    auto p = std::make_shared<Partition>(id, name, q);
    b.byId[id] = p;
    b.all.addPartition(p);
  }
  for (auto& n : s.nodes) {
    ExpressionPtr e;
    auto& a = n.args;
    if (n.type == "choose") {
      e = std::make_shared<ChooseExpression>(n.name, parseParts(a[0], b), std::stoul(a[1]), std::stoul(a[2]), std::stoul(a[3]), std::stod(a[4]));
    } else if (n.type == "wchoose") {
      e = std::make_shared<WindowedChooseExpression>(n.name, parseParts(a[0], b), std::stoul(a[1]), std::stoul(a[2]), std::stoul(a[3]), std::stoul(a[4]), std::stoul(a[5]), std::stod(a[6]));
    } else if (n.type == "mchoose") {
      e = std::make_shared<MalleableChooseExpression>(n.name, parseParts(a[0], b), std::stoul(a[1]), std::stoul(a[2]), std::stoul(a[3]), std::stoul(a[4]), std::stod(a[5]));
    } else if (n.type == "alloc") {
      PriorPlacement pp;
      std::istringstream ss(a[0]);
      std::string tok;
      while (std::getline(ss, tok, ',')) {
        auto c = tok.find(':');
        pp.push_back({b.byId.at(static_cast<uint32_t>(std::stoul(tok.substr(0, c)))), static_cast<uint32_t>(std::stoul(tok.substr(c + 1)))});
      }
      e = std::make_shared<AllocationExpression>(n.name, pp, std::stoul(a[1]), std::stoul(a[2]));
    } else if (n.type == "objective") e = std::make_shared<ObjectiveExpression>(n.name);
    else if (n.type == "min") e = std::make_shared<MinExpression>(n.name);
    else if (n.type == "max") e = std::make_shared<MaxExpression>(n.name);
    else if (n.type == "lessthan") e = std::make_shared<LessThanExpression>(n.name);
    else if (n.type == "scale") {
      if (a.size() > 1) e = std::make_shared<ScaleExpression>(n.name, std::stod(a[0]), a[1] == "1");
      else e = std::make_shared<ScaleExpression>(n.name, std::stod(a[0]));
    } else throw std::runtime_error("unknown node type " + n.type);
    b.nodes.push_back(e);
  }
  for (auto& [p, c] : s.edges) b.nodes.at(p)->addChild(b.nodes.at(c));
  b.root = b.nodes.at(s.root);
  return b;
}

static void compile(const Spec& s, Built& b, SolverModelPtr model) {
  CapacityConstraintMapPtr ccm;
  if (s.ranges.empty()) ccm = std::make_shared<CapacityConstraintMap>(s.disc);
  else ccm = std::make_shared<CapacityConstraintMap>(s.ranges);
  auto cfg = std::make_shared<OptimizationPassConfig>();
  cfg->minDiscretization = s.minDisc;
  cfg->maxDiscretization = s.maxDisc;
  OptimizationPassRunner runner(cfg, false);
  for (auto& p : s.passes) {
    if (p == "CRITICAL_PATH_PASS") runner.addOptimizationPass(CRITICAL_PATH_PASS);
    else if (p == "CAPACITY_CONSTRAINT_PURGE_PASS") runner.addOptimizationPass(CAPACITY_CONSTRAINT_PURGE_PASS);
    else if (p == "DYNAMIC_DISCRETIZATION_PASS") runner.addOptimizationPass(DYNAMIC_DISCRETIZATION_PASS);
  }
  runner.runPreTranslationPasses(s.now, b.root, ccm);
  auto _ = b.root->parse(model, b.all, ccm, s.now);
  runner.runPostTranslationPasses(s.now, b.root, ccm);
}

static void dumpSolution(const Spec& s, Built& b, SolverModelPtr model, std::ostream& os) {
  auto rootSol = b.root->populateResults(model);
  os << "UTIL " << std::setprecision(17) << model->getObjectiveValue() << " ";
  if (rootSol->utility.has_value()) os << std::setprecision(17) << rootSol->utility.value(); else os << "-";
  os << "\n";
  for (size_t i = 0; i < b.nodes.size(); ++i) {
    auto sol = b.nodes[i]->getSolution();
    os << "EXPR " << i << " " << s.nodes[i].type << " " << s.nodes[i].name << " ";
    if (!sol.has_value()) { os << "nosolution\n"; continue; }
    auto r = sol.value();
    os << (r->type == EXPRESSION_UTILITY ? "utility" : "noutility") << " ";
    if (r->utility.has_value()) os << std::setprecision(17) << r->utility.value(); else os << "-";
    os << " ";
    if (r->startTime.has_value()) os << r->startTime.value(); else os << "-";
    os << " ";
    if (r->endTime.has_value()) os << r->endTime.value(); else os << "-";
    os << " " << r->placements.size() << "\n";
  }
  for (auto& [name, pl] : rootSol->placements) {
    os << "PLACE " << name << " " << (pl->isPlaced() ? 1 : 0) << " ";
    if (pl->getStartTime().has_value()) os << pl->getStartTime().value(); else os << "-";
    os << " ";
    if (pl->getEndTime().has_value()) os << pl->getEndTime().value(); else os << "-";
    size_t n = 0;
    for (auto& [pid, allocs] : pl->getPartitionAllocations()) n += allocs.size();
    os << " " << n;
    for (auto& [pid, allocs] : pl->getPartitionAllocations())
      for (auto& [t, q] : allocs) os << " " << pid << ":" << t << ":" << q;
    os << "\n";
  }
  os << "ENDSOL" << std::endl;
}

int main(int argc, char** argv) {
  if (argc < 2) { std::cerr << "usage: driver <spec file>  (assignments on stdin)\n"; return 2; }
  std::ifstream f(argv[1]);
  Spec spec = readSpec(f);
  size_t nvars = 0;
  try {
    Built b = build(spec);
    auto model = GoogleCPSolver::newModel();
    compile(spec, b, model);
    nvars = GoogleCPSolver::orderedVariables(model).size();
    GoogleCPSolver::dump(model, std::cout);
  } catch (const std::exception& e) {
    std::cout << "EXC compile " << e.what() << "\nEND" << std::endl;
    return 0;
  }
  std::string line;
  while (std::getline(std::cin, line)) {
    std::istringstream ls(line);
    std::string kw;
    if (!(ls >> kw)) continue;
    if (kw == "QUIT") break;
    if (kw != "SOL") continue;
    std::vector<double> vals;
    double v;
    while (ls >> v) vals.push_back(v);
    try {
      Built b = build(spec);
      auto model = GoogleCPSolver::newModel();
      compile(spec, b, model);
      if (vals.size() != nvars || !GoogleCPSolver::setValues(model, vals)) {
        std::cout << "EXC solution variable count mismatch " << vals.size() << " vs " << nvars << "\nENDSOL" << std::endl;
        continue;
      }
      dumpSolution(spec, b, model, std::cout);
    } catch (const std::exception& e) {
      std::cout << "EXC populate " << e.what() << "\nENDSOL" << std::endl;
    }
  }
  return 0;
}
