"""Builds the C20 driver from /repo's current tetrisched sources with ASan + UBSan.

The build directory is keyed by a hash of every input (library sources and headers, the
TBB shim, the driver, the flags), so a changed working tree is always rebuilt and an
unchanged one is reused.  Nothing is fetched: g++ 12 and the sanitizer runtimes are local.
"""
import hashlib
import os
import shutil
import subprocess

from .. import common

HERE = os.path.dirname(os.path.abspath(__file__))
SOURCES = ["Types.cpp", "Partition.cpp", "SolverModel.cpp", "CapacityConstraint.cpp", "Expression.cpp",
           "OptimizationPasses.cpp"]
FLAGS = ["-std=c++20", "-O1", "-g", "-fno-omit-frame-pointer", "-fsanitize=address,undefined",
         "-fno-sanitize-recover=all", "-w"]


def _tetrisched_dir():
    return os.path.join(common.REPO, "schedulers", "tetrisched")


def _inputs():
    td = _tetrisched_dir()
    files = [os.path.join(td, "src", s) for s in SOURCES]
    inc = os.path.join(td, "include", "tetrisched")
    files += sorted(os.path.join(inc, f) for f in os.listdir(inc))
    files.append(os.path.join(HERE, "driver.cpp"))
    tbb = os.path.join(HERE, "tbb")
    files += sorted(os.path.join(tbb, f) for f in os.listdir(tbb))
    return files


def source_hash():
    h = hashlib.sha256(" ".join(FLAGS).encode())
    for f in _inputs():
        h.update(os.path.basename(f).encode())
        with open(f, "rb") as fh:
            h.update(fh.read())
    return h.hexdigest()[:16]


def build(verbose=False):
    """returns (driver path, info dict).  Raises RuntimeError with the compiler output on failure."""
    key = source_hash()
    bdir = os.path.join(common.OUT, f"strl-build-{key}")
    drv = os.path.join(bdir, "driver")
    if os.path.exists(drv):
        try:
            os.utime(bdir, None)  # mark as in use
        except OSError:
            pass
        return drv, {"cached": True, "key": key}
    # drop stale builds of other trees (disk is limited) -- but only those not used for hours: a check of another tree
    # (VERIF_REPO=<worktree>) may be running from its own build right now
    import time as _t
    if os.path.isdir(common.OUT):
        for d in os.listdir(common.OUT):
            pth = os.path.join(common.OUT, d)
            if d.startswith("strl-build-") and d != f"strl-build-{key}":
                try:
                    if _t.time() - os.path.getmtime(pth) > 3 * 3600:
                        shutil.rmtree(pth, ignore_errors=True)
                except OSError:
                    pass
    tmp = bdir + f".tmp{os.getpid()}"
    shutil.rmtree(tmp, ignore_errors=True)
    os.makedirs(tmp)
    td = _tetrisched_dir()
    inc = ["-I" + os.path.join(td, "include"), "-I" + HERE]
    units = [os.path.join(td, "src", s) for s in SOURCES] + [os.path.join(HERE, "driver.cpp")]
    procs = []
    for u in units:
        obj = os.path.join(tmp, os.path.basename(u) + ".o")
        cmd = ["g++"] + FLAGS + inc + ["-c", u, "-o", obj]
        procs.append((u, obj, subprocess.Popen(cmd, stdout=subprocess.PIPE, stderr=subprocess.STDOUT, text=True)))
    objs = []
    for u, obj, p in procs:
        out, _ = p.communicate()
        if p.returncode != 0:
            for _, _, q in procs:
                if q.poll() is None:
                    q.kill()
            shutil.rmtree(tmp, ignore_errors=True)
            raise RuntimeError(f"compiling {u} failed:\n{out[-4000:]}")
        objs.append(obj)
    link = subprocess.run(["g++"] + FLAGS + objs + ["-o", os.path.join(tmp, "driver"), "-lpthread"],
                          stdout=subprocess.PIPE, stderr=subprocess.STDOUT, text=True)
    if link.returncode != 0:
        shutil.rmtree(tmp, ignore_errors=True)
        raise RuntimeError(f"link failed:\n{link.stdout[-4000:]}")
    for o in objs:
        os.remove(o)
    try:
        os.rename(tmp, bdir)
    except OSError:
        shutil.rmtree(tmp, ignore_errors=True)  # another process won the race
    return drv, {"cached": False, "key": key}


if __name__ == "__main__":
    import time
    t = time.time()
    print(build(True), round(time.time() - t, 1))
