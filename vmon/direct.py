"""Direct-drive simulations with a hostile policy.

The e2e worlds reach the simulator through main.py and the bundled policies.  Two things are
out of their reach: task graphs that only the library API can build (several timestamps of
one job with cross-timestamp edges, as the Pylot / synthetic loaders make them), and
decisions no bundled policy emits (a child planned while its parent is still running, two
tasks planned onto one full worker, a plan for a task that is not released yet).  Here the
harness builds TaskGraphs / Workload / WorkerPools / Simulator itself and plugs in a *chaos*
policy: a BaseScheduler subclass that answers the frontier it is offered with random
placements (random time at or after now, random pool / worker / strategy, some tasks left
unplaced).  Such answers are legal input to the simulator, whose job is to defer what is
not ready and retry what does not fit.

Monitors (class-level wrappers, own event record, no code shared with e2e.py):
  C02  start only after an observed release and after every parent of the harness' own edge
       list has finished; started / finished at most once
  C03  completion = start + the strategy runtime; nothing ranked after TASK_FINISHED is
       handled while an execution that is due has not been finished; start not before the
       time of the decision that was applied last
  C01  recount of the demand resident on a worker after every place_task
  C05  logical watchdogs (zero-length steps, events per instant) and SIMULATOR_END reached;
       a run that ends before its timeout leaves nothing SCHEDULED / RUNNING and no RELEASED
       task that fits an empty worker
  C06  every state change seen at a Task mutator is on the legal lifecycle; unschedule()
       restores the state the scheduled episode began in; a cancelled task's descendants
       (harness' own edge list) never start and end CANCELLED; final states stay final
       (the chaos policy also retracts, re-plans and cancels)
"""
import logging
import random
import time as _time

from . import common
from .common import seed_int, wrap, unwrap_all

MAX_ZERO_STEPS = 3000
MAX_EVENTS_PER_INSTANT = 4000


class Watchdog(BaseException):
    """the harness' logical watchdog; a BaseException so that no `except Exception` can swallow or misread it"""


class WallClock(BaseException):
    """the wall-clock alarm (tooling-inconclusive, never a verdict)"""


def gen_direct(parts, variant=None):
    """variant "planner": graphs with unique task names (dag / dagrel), every decision names its worker, look-ahead more
    often: the states on which the bundled planners can be shadow-invoked"""
    rng = random.Random(seed_int("direct", *parts, *([variant] if variant else [])))
    res_names = ["CPU"] if rng.random() < 0.7 else ["CPU", "GPU"]
    pools = []
    for p in range(rng.randint(1, 2)):
        ws = []
        for w in range(rng.randint(1, 3)):
            ws.append({"name": f"W{p}{w}", "cap": {n: rng.randint(1, 3) for n in res_names}})
        pools.append({"name": f"P{p}", "workers": ws})
    graphs = []
    for g in range(rng.randint(1, 3)):
        kind = rng.choice(["stream", "stream", "dag", "dagrel"] if variant not in ("planner", "loader") else
                          (["dag", "dagrel", "dagrel"] if variant == "planner" else ["dag"]))
        njobs = rng.randint(1, 3) if kind == "stream" else rng.randint(2, 5)
        nts = rng.randint(2, 3) if kind == "stream" else 1
        jobs = [f"J{g}{j}" for j in range(njobs)]
        pipelined = {j: (rng.random() < 0.25) for j in jobs}
        jedges = [(jobs[a], jobs[b]) for a in range(njobs) for b in range(a + 1, njobs) if rng.random() < 0.45]
        tasks, edges = [], []
        base_release = rng.randint(0, 6)
        if variant == "loader":
            # graphs arrive over time through a streaming workload loader, with quiet windows before and between arrivals
            base_release += rng.choice([0, 0, 25, 60, 110]) if g > 0 or rng.random() < 0.5 else 0
        for j in jobs:
            nstrat = rng.randint(1, 2)
            strategies = [({n: rng.randint(1, 2) for n in rng.sample(res_names, rng.randint(1, len(res_names)))},
                           rng.choice([0, 1, 2, 3, 3, 5, 8]) if rng.random() < 0.9 else 0) for _ in range(nstrat)]
            for ts in range(nts):
                has_same_ts_parent = any(b == j for a, b in jedges)
                rel = -1
                if not has_same_ts_parent:
                    rel = base_release + ts * rng.choice([0, 2, 5, 9])
                elif kind == "dagrel" and rng.random() < 0.6:
                    # a task below a parent that also carries its own (known) release time: it may not start before it
                    rel = base_release + rng.randint(1, 25)
                deadline = rng.randint(30, 200)
                if variant == "planner" and rng.random() < 0.6:
                    # deadlines that bind: around (known or earliest possible) release + runtime
                    slow = max(rt for _, rt in strategies)
                    deadline = max(rel, base_release) + rng.choice([slow, slow, slow + 1, slow + 3, 2 * slow + 4, 15])
                tasks.append({"job": j, "ts": ts, "strategies": strategies, "release": rel, "deadline": deadline})
        for a, b in jedges:
            for ts in range(nts):
                edges.append(((a, ts), (b, ts)))
        for j in jobs:
            if not pipelined[j]:
                for ts in range(nts - 1):
                    edges.append(((j, ts), (j, ts + 1)))
        graphs.append({"name": f"G{g}", "kind": kind, "tasks": tasks, "edges": edges})
    policy = {"lookahead": rng.choice([0, 0, 3, 10, 100]), "release_taskgraphs": rng.random() < 0.5,
              "retract": rng.random() < 0.3, "p_unplaced": rng.choice([0.0, 0.1, 0.3]), "max_offset": rng.choice([0, 2, 6, 12]),
              "pin_worker": rng.random() < 0.5, "seed": rng.randrange(1 << 30)}
    # drawn last so that the worlds of earlier runs keep their other dimensions
    policy["p_cancel"] = rng.choice([0.0, 0.0, 0.04, 0.12])
    policy["p_replan"] = rng.choice([0.0, 0.5, 1.0])
    # batches: some jobs' strategies admit 2-3 requests per batch; the chaos policy then answers several timestamps of such a
    # job with ONE BatchStrategy object (possibly at different times, so that a batch drains before its last member arrives)
    policy["p_batch"] = rng.choice([0.0, 0.0, 0.5, 0.9])
    # profile loads / evictions: some jobs' profiles can be loaded onto a worker (they then occupy resources there)
    policy["p_load"] = rng.choice([0.0, 0.0, 0.1, 0.3])
    for g in graphs:
        ld = {}
        for t in g["tasks"]:
            if t["job"] not in ld:
                ld[t["job"]] = ({rng.choice(res_names): rng.randint(1, 2)}, rng.choice([0, 1, 3])) if rng.random() < 0.5 else None
            t["loading"] = ld[t["job"]]
    lrng = random.Random(seed_int("direct-loading2", *parts, *([variant] if variant else [])))
    for g in graphs:
        ld2 = {}
        for t in g["tasks"]:
            if t["job"] not in ld2:
                ld2[t["job"]] = None
                if t.get("loading") and lrng.random() < 0.6:
                    (req, rt) = t["loading"]
                    n = next(iter(req))
                    ld2[t["job"]] = ({n: req[n] + 1}, max(0, rt - 1))  # more memory, loads faster
            t["loading2"] = ld2[t["job"]]
    policy["pin_all"] = policy["pin_worker"] and rng.random() < 0.6
    if variant == "planner":
        policy["pin_worker"] = policy["pin_all"] = True
        policy["lookahead"] = rng.choice([0, 3, 10, 10, 100])
        policy["max_offset"] = rng.choice([2, 6, 12])
        policy["p_batch"] = 0.0  # batches only arise under the batching policy; the planners are not judged on them
    policy["shadow_discretization"] = rng.choice([1, 2, 3, 5])
    if variant == "latent":
        # a policy that takes simulated time to answer: its decisions are applied `runtime` later, on a state that has
        # moved on (planned tasks have started or finished meanwhile, new tasks were released)
        policy["runtime"] = rng.choice([1, 2, 4, 8])
        policy["retract"] = rng.random() < 0.7
        policy["p_replan"] = rng.choice([0.5, 1.0])
        policy["lookahead"] = rng.choice([0, 3, 10, 100])
        policy["max_offset"] = rng.choice([0, 2, 6])
        policy["p_batch"] = 0.0
        policy["p_load"] = 0.0
    for g in graphs:
        bs = {}
        for t in g["tasks"]:
            if t["job"] not in bs:
                bs[t["job"]] = rng.choice([1, 1, 2, 3])
            t["batch_size"] = bs[t["job"]]
    world = {"pools": pools, "graphs": graphs, "policy": policy, "frequency": rng.choice([-1, -1, 1, 4]), "timeout": rng.choice([120, 200, 400]),
             "res_names": res_names}
    if variant == "loader":
        world["loader"] = {"interval": rng.choice([-1, 10, 40])}
        world["timeout"] = 600
    return world


class _TaskView:
    """what the decision hooks written for the e2e runs read through ctx.tasks: starts and the standing decision"""

    def __init__(self, ctx):
        self.ctx = ctx

    def get(self, tid, default=None):
        r = self.ctx.rec.get(tid)
        if r is None:
            return default
        pd = self.ctx.policy_decision.get(tid)
        return {"starts": r["starts"], "applied": pd if (pd is not None and pd.is_placed()) else None}


class Ctx:
    def __init__(self, world):
        self.world = world
        self.opts = {}
        self.tasks = _TaskView(self)
        self.viol = []
        self.counters = {}
        self.clock = 0
        self.zero_steps = 0
        self.events_this_instant = 0
        self.rec = {}       # id(task) -> record
        self.running_due = {}
        self.resident = {}  # id(worker) -> {id(task): demand}
        self.flags = set()
        self.ended = False
        self.end_time = None
        self.task_spec = {}
        self.policy_decision = {}  # id(task) -> the Placement the chaos policy returned last (boundary record)
        self.pending_decisions = []  # the answer being computed: takes effect at SCHEDULER_FINISHED
        self.task_obj = {}         # id(task) -> Task
        self.worker_info = {}      # id(worker) -> {"wid", "pool", "cap"}
        self.shadow_call = None
        self.profiles = {}         # (graph, job) -> WorkProfile that has a loading strategy
        self.profile_where = {}    # chaos-side record: (id(profile), worker id) -> True while loaded / loading
        self.shadow = False
        self.planner_rounds = 0

    def count(self, k, n=1):
        self.counters[k] = self.counters.get(k, 0) + n

    def violate(self, prop, kind, detail, **facts):
        if len(self.viol) < 12:
            self.viol.append({"prop": prop, "kind": kind, "detail": detail, "facts": facts})


_CTX = None


def _install():
    import simulator as S
    import workload as wl
    import workers as wk
    Sim, Task = S.Simulator, wl.Task

    def active(fn):
        def w(*a, **k):
            if _CTX is None:
                return None
            return fn(_CTX, *a, **k)
        return w

    @active
    def step_before(ctx, self, step_size=None, *a, **k):
        ss = step_size.time if step_size is not None else None
        if ss == 0:
            ctx.zero_steps += 1
            if ctx.zero_steps > MAX_ZERO_STEPS:
                raise Watchdog(f"{ctx.zero_steps} consecutive zero-length steps at t={ctx.clock}")
        elif ss is not None and ss > 0:
            ctx.zero_steps = 0
            ctx.events_this_instant = 0

    @active
    def step_after(ctx, ret, self, *a, **k):
        now = self._simulator_time.time
        if now < ctx.clock:
            ctx.violate("C03", "clock_backwards", f"{ctx.clock} -> {now}")
        ctx.clock = now
    wrap(Sim, "_Simulator__step", before=step_before, after=step_after)

    @active
    def handle_before(ctx, self, event):
        ctx.zero_steps = 0
        ctx.events_this_instant += 1
        if ctx.events_this_instant > MAX_EVENTS_PER_INSTANT:
            raise Watchdog(f"{ctx.events_this_instant} events handled at one instant t={ctx.clock}")
        et, name = event.time.time, event.event_type.name
        ctx.count("events")
        if et != ctx.clock:
            ctx.violate("C03", "event_at_wrong_clock", f"{name} for t={et} handled at clock {ctx.clock}")
        if ctx.running_due and common.EVENT_RANK.get(name, 0) > common.EVENT_RANK["TASK_FINISHED"]:
            ctx.count("due_completion_checks")
            late = [(u, d) for (u, d) in ctx.running_due.values() if d <= et]
            if late:
                u, d = min(late, key=lambda x: x[1])
                ctx.violate("C03", "event_handled_before_due_completion",
                            f"{name} at t={et} handled while {u}, due to complete at {d}, is still running")
        if name == "SIMULATOR_END":
            ctx.ended = True
            ctx.end_time = et
        if name == "SCHEDULER_FINISHED":
            for p in ctx.pending_decisions:
                st = p.task.state.name
                if st in ("RUNNING", "COMPLETED", "PREEMPTED"):
                    # the task moved on while the policy was computing: the simulator skips the decision (or preempts /
                    # migrates the running task, which takes it out of the properties' "non-preempted" scope)
                    ctx.count("stale_decisions_for_started_tasks")
                    continue
                ctx.policy_decision[id(p.task)] = p
            ctx.pending_decisions = []
    wrap(Sim, "_Simulator__handle_event", before=handle_before)

    def trec(ctx, task):
        r = ctx.rec.get(id(task))
        if r is None:
            r = {"key": (task.task_graph, task.job.name, task.timestamp), "released": None, "starts": [], "finishes": [], "decision": None}
            ctx.rec[id(task)] = r
            ctx.by_key[r["key"]] = r
            ctx.task_obj[id(task)] = task
        return r

    @active
    def release_after(ctx, ret, self, time=None, *a, **k):
        r = trec(ctx, self)
        if r["released"] is None:
            r["released"] = ctx.clock
        ctx.count("releases")
        # C02: the release time the harness itself declared for this task (Task.release() overwrites the task's own field,
        # so the declared value is kept apart): a task is not released -- and below: not started -- before it
        spec = ctx.task_spec.get(r["key"])
        if spec is not None and spec["release"] >= 0:
            ctx.count("releases_with_declared_time")
            if ctx.clock < spec["release"]:
                ctx.violate("C02", "released_before_own_release_time",
                            f"{r['key'][1]}@{r['key'][2]} of {r['key'][0]} released at {ctx.clock}, its declared release time is {spec['release']}")
    wrap(Task, "release", after=release_after)

    @active
    def schedule_after(ctx, ret, self, time=None, placement=None, *a, **k):
        r = trec(ctx, self)
        pl = placement if placement is not None else (a[0] if a else None)
        r["decision"] = pl
        if r["released"] is None:
            ctx.flags.add("planned_before_release")
    wrap(Task, "schedule", after=schedule_after)

    @active
    def start_after(ctx, ret, self, time=None, *a, **k):
        r = trec(ctx, self)
        t = ctx.clock
        ctx.count("starts")
        name = f"{r['key'][1]}@{r['key'][2]} of {r['key'][0]}"
        if r["starts"]:
            ctx.violate("C02", "started_twice", f"{name} started at {r['starts']} and {t}")
        if r["released"] is None:
            ctx.violate("C02", "start_before_release", f"{name} started at {t}, no release observed")
        if self.release_time is not None and not self.release_time.is_invalid() and t < self.release_time.time:
            ctx.violate("C02", "start_before_release", f"{name} started at {t} < release time {self.release_time.time}")
        spec = ctx.task_spec.get(r["key"])
        if spec is not None and spec["release"] >= 0 and t < spec["release"]:
            ctx.violate("C02", "start_before_release", f"{name} started at {t} < its declared release time {spec['release']}")
        missing = []
        for pk in ctx.parents.get(r["key"], ()):  # the harness' own edge list
            pr = ctx.by_key.get(pk)
            if pr is None or not pr["finishes"]:
                missing.append(f"{pk[1]}@{pk[2]}")
        if ctx.parents.get(r["key"]):
            ctx.count("starts_with_parents")
        if missing:
            ctx.violate("C02", "start_before_parents", f"{name} started at {t}, unfinished parents {missing}")
        pd = ctx.policy_decision.get(id(self))
        if pd is not None:
            ctx.count("starts_vs_policy_decision")
            if pd.placement_type.name != "PLACE_TASK" or not pd.is_placed():
                ctx.violate("C03", "start_without_standing_decision", f"{name} started at {t} but the policy's last answer was {pd.placement_type.name} placed={pd.is_placed()}")
            elif r["decision"] is not None and (r["decision"].execution_strategy is not pd.execution_strategy
                                                or r["decision"].placement_time != pd.placement_time):
                ctx.violate("C03", "runs_other_decision_than_policy_returned",
                            f"{name}: policy returned t={pd.placement_time.time} runtime {pd.execution_strategy.runtime.time}, "
                            f"task was told t={r['decision'].placement_time.time} runtime {r['decision'].execution_strategy.runtime.time}")
            if pd.is_placed():
                r["decision"] = pd
        pl = r["decision"]
        if pl is not None and pl.placement_time is not None and t < pl.placement_time.time:
            ctx.violate("C03", "start_before_chosen_time", f"{name} started at {t} < chosen {pl.placement_time.time}")
        r["starts"].append(t)
        try:
            rem = self.remaining_time.time
            r["runtime"] = rem
            ctx.running_due[id(self)] = (name, t + rem)
            if pl is not None and pl.execution_strategy is not None and pl.execution_strategy.runtime.time != rem:
                ctx.violate("C03", "runtime_not_strategy", f"{name} started with {rem} remaining, strategy runtime {pl.execution_strategy.runtime.time}")
        except Exception:
            pass
    wrap(Task, "start", after=start_after)

    @active
    def finish_after(ctx, ret, self, time=None, *a, **k):
        r = trec(ctx, self)
        t = ctx.clock
        ctx.count("finishes")
        ctx.running_due.pop(id(self), None)
        name = f"{r['key'][1]}@{r['key'][2]} of {r['key'][0]}"
        if r["finishes"]:
            ctx.violate("C02", "finished_twice", f"{name} finished at {r['finishes']} and {t}")
        r["finishes"].append(t)
        if r["starts"] and "runtime" in r and not r.get("preempted") and t != r["starts"][-1] + r["runtime"]:
            ctx.violate("C03", "runtime_inexact", f"{name} started {r['starts'][-1]} runtime {r['runtime']} finished {t}")
    wrap(Task, "finish", after=finish_after)

    @active
    def cancel_after(ctx, ret, self, *a, **k):
        ctx.running_due.pop(id(self), None)
    wrap(Task, "cancel", after=cancel_after)

    @active
    def preempt_after(ctx, ret, self, *a, **k):
        # a preempted task is outside "a non-preempted task ..." (C02), exact run times (C03) and the lifecycle of C06
        r = trec(ctx, self)
        r["preempted"] = True
        ctx.running_due.pop(id(self), None)
        ctx.count("preemptions")
    wrap(Task, "preempt", after=preempt_after)

    @active
    def place_after(ctx, ret, self, task, execution_strategy=None, *a, **k):
        caps = ctx.caps.get(id(self))
        if caps is None:
            return  # a policy's scratch copy
        res = ctx.resident.setdefault(id(self), {})
        d = {}
        for rsrc, q in execution_strategy.resources.resources:
            d[rsrc.name] = d.get(rsrc.name, 0) + q
        for wid_other, other in ctx.resident.items():
            if wid_other != id(self) and any(id(task) in ent["members"] for ent in other.values()):
                ctx.violate("C01", "two_workers", f"{task.unique_name} placed on worker {self.name} while resident on another worker")
        if isinstance(execution_strategy, wl.BatchStrategy):
            # a batch counts once, for as long as at least one member is resident
            ent = res.setdefault(("batch", id(execution_strategy)), {"demand": d, "members": set(), "size": execution_strategy.batch_size})
            ent["members"].add(id(task))
            ctx.count("live_batch_place")
            if len(ent["members"]) > 1:
                ctx.count("live_batch_joined")
            if len(ent["members"]) > ent["size"]:
                ctx.violate("C01", "batch_overfull", f"worker {self.name}: {len(ent['members'])} members in a batch of size {ent['size']}")
        else:
            res[("task", id(task))] = {"demand": d, "members": {id(task)}}
        ctx.count("live_place")
        for n, c in caps.items():
            used = sum(x["demand"].get(n, 0) for x in res.values())
            if used > c:
                ctx.violate("C01", "oversubscribed", f"worker {self.name}: {used} {n} resident, capacity {c}")
        if len(res) > 1:
            ctx.flags.add("coresident")
    wrap(wk.Worker, "place_task", after=place_after)

    @active
    def remove_after(ctx, ret, self, *a, **k):
        task = a[-1] if a else k.get("task")
        res = ctx.resident.get(id(self))
        if res is not None:
            for key in list(res):
                if id(task) in res[key]["members"]:
                    res[key]["members"].discard(id(task))
                    if not res[key]["members"]:
                        del res[key]
                        if key[0] == "batch":
                            ctx.count("live_batch_drained")
    wrap(wk.Worker, "remove_task", after=remove_after)

    # ---- C01: loaded profiles occupy resources -------------------------------------------------
    @active
    def load_after(ctx, ret, self, profile, loading_strategy, *a, **k):
        caps = ctx.caps.get(id(self))
        if caps is None:
            return
        res = ctx.resident.setdefault(id(self), {})
        d = {}
        for rsrc, q in loading_strategy.resources.resources:
            d[rsrc.name] = d.get(rsrc.name, 0) + q
        res[("profile", id(profile))] = {"demand": d, "members": set(), "profile": profile.name}
        ctx.count("live_load")
        for n, c in caps.items():
            used = sum(x["demand"].get(n, 0) for x in res.values())
            if used > c:
                ctx.violate("C01", "oversubscribed", f"worker {self.name}: {used} {n} resident incl. loaded profiles, capacity {c}")
    wrap(wk.Worker, "load_profile", after=load_after)

    @active
    def evict_after(ctx, ret, self, profile, *a, **k):
        res = ctx.resident.get(id(self))
        if res is not None and res.pop(("profile", id(profile)), None) is not None:
            ctx.count("live_evict")
    wrap(wk.Worker, "evict_profile", after=evict_after)

    @active
    def applied_load_check(ctx, ret, self, event):
        # decision recorded at the boundary: once a LOAD_WORK_PROFILE decision is applied, the profile holds on that worker
        # exactly what the decided loading strategy demands
        if event.event_type.name != "LOAD_PROFILE" or event.placement is None or event.placement.worker_id is None:
            return
        pl = event.placement
        pool = self._worker_pools.get_worker_pool(pl.worker_pool_id)
        w = next((x for x in pool.workers if x.id == pl.worker_id), None) if pool is not None else None
        if w is None:
            return
        ctx.count("applied_profile_loads_judged")
        want, got = {}, {}
        for res, q in pl.loading_strategy.resources.resources:
            if q:
                want[res.name] = want.get(res.name, 0) + q
        for res, q in w.resources.get_allocated_resources(pl.work_profile):
            if q:
                got[res.name] = got.get(res.name, 0) + q
        if got != want:
            ctx.violate("C01", "profile_holds_other_than_its_loading_strategy",
                        f"t={ctx.clock}: {pl.work_profile.name} loaded on {w.name} with a strategy that demands {want}; the ledger holds {got} for it")
    wrap(Sim, "_Simulator__handle_event", after=applied_load_check)

    @active
    def profile_tables_check(ctx, ret, self, event):
        # invariant at a hook: every profile a live worker knows (loading or loaded) holds the resources of its loading
        # strategy, i.e. the harness saw its load_profile() return
        for pool in self._worker_pools.worker_pools:
            for w in pool.workers:
                if id(w) not in ctx.caps:
                    continue
                known = {id(p): p for p in list(w.get_available_profiles()) + list(w.get_pending_profiles())}
                res = ctx.resident.get(id(w), {})
                ctx.count("profile_table_checks")
                members = {tid for key, ent in res.items() if key[0] != "profile" for tid in ent["members"]}
                for t in w.get_placed_tasks():
                    if id(t) not in members:
                        ctx.violate("C01", "task_listed_without_allocation",
                                    f"worker {w.name} lists {t.unique_name} ({t.state.name}) as placed but no successful place_task() put it there")
                for pid_, pr in known.items():
                    if ("profile", pid_) not in res:
                        ctx.violate("C01", "profile_resident_without_allocation",
                                    f"worker {w.name} lists profile {pr.name} as loading/loaded but no successful load_profile() reserved its resources")
    wrap(Sim, "_Simulator__handle_event", after=profile_tables_check)

    # ---- C10: what a shadow-invoked bundled policy was offered -------------------------------
    @active
    def frontier_after(ctx, ret, self, *a, **k):
        if ctx.shadow_call is not None and ctx.shadow_call.get("offered") is None:
            ctx.shadow_call["offered"] = list(ret)
    wrap(wl.Workload, "get_schedulable_tasks", after=frontier_after)

    # ---- C06: lifecycle automaton on every Task mutator ------------------------------------
    def lifecycle(method):
        def before(ctx, self, *a, **k):
            r = trec(ctx, self)
            r["_pre"] = self._state.name
            if "state" not in r:
                r["state"] = r["_pre"]

        def after(ctx, ret, self, *a, **k):
            r = trec(ctx, self)
            pre, post = r.pop("_pre", None), self._state.name
            name = f"{r['key'][1]}@{r['key'][2]} of {r['key'][0]}"
            ctx.count("transitions")
            if r.get("preempted") or method in ("preempt", "resume"):
                r["state"] = post
                return
            if pre != r.get("state", pre):
                ctx.violate("C06", "state_written_outside_mutators", f"{name}: {r.get('state')} -> {pre} before {method}")
            if pre != post or method == "schedule":
                if (pre, post) not in LEGAL and not (pre == post and method == "release"):
                    ctx.violate("C06", "illegal_transition", f"{name}: {pre} -> {post} via {method}")
                if pre in ("COMPLETED", "CANCELLED") and post != pre:
                    ctx.violate("C06", "left_final_state", f"{name}: {pre} -> {post} via {method}")
                if post == "VIRTUAL" and r["released"] is not None:
                    ctx.violate("C06", "released_task_back_to_virtual", f"{name}: released at {r['released']}, {pre} -> VIRTUAL via {method}")
            if method == "schedule" and pre != "SCHEDULED":
                r["pre_sched"] = pre
            elif method == "schedule":
                ctx.count("replans_of_scheduled_task")
            elif method == "release" and pre == "SCHEDULED":
                r["pre_sched"] = "RELEASED"
            elif method == "unschedule":
                ctx.count("unschedule_fallbacks_checked")
                want = r.get("pre_sched")
                if post == "SCHEDULED" or (want is not None and post != want):
                    ctx.violate("C06", "unschedule_did_not_restore", f"{name}: unschedule left {post}, state before scheduling was {want}")
            elif method == "cancel":
                ctx.count("cancels")
                r["cancelled"] = ctx.clock
            r["state"] = post
        wrap(Task, method, before=active(before), after=active(after))

    for m in ("release", "schedule", "unschedule", "start", "finish", "cancel", "preempt", "resume"):
        lifecycle(m)


LEGAL = {
    ("VIRTUAL", "RELEASED"), ("VIRTUAL", "SCHEDULED"), ("RELEASED", "SCHEDULED"),
    ("SCHEDULED", "SCHEDULED"), ("SCHEDULED", "VIRTUAL"), ("SCHEDULED", "RELEASED"),
    ("SCHEDULED", "RUNNING"), ("RUNNING", "COMPLETED"),
    ("VIRTUAL", "CANCELLED"), ("RELEASED", "CANCELLED"), ("SCHEDULED", "CANCELLED"),
}


def _final_checks(ctx, world, tasks_by_key, timeout):
    """end-of-run rules; tasks_by_key: key -> Task object (harness' own map)"""
    states = {k: t._state.name for k, t in tasks_by_key.items()}
    # starved = some parent (own edge list; these graphs have no conditionals) is cancelled or starved
    starved = {}

    def is_starved(k, depth=0):
        if k in starved:
            return starved[k]
        starved[k] = False
        v = any(states.get(p) == "CANCELLED" or is_starved(p) for p in ctx.parents.get(k, ()))
        starved[k] = v
        return v
    has_child = {p for k in tasks_by_key for p in ctx.parents.get(k, ())}
    if any(states[k] == "CANCELLED" and k in has_child for k in tasks_by_key):
        ctx.flags.add("cancel_with_descendants")
    for k, t in tasks_by_key.items():
        r = ctx.by_key.get(k)
        name = f"{k[1]}@{k[2]} of {k[0]}"
        if r is not None and r.get("state") is not None and r["state"] != states[k]:
            ctx.violate("C06", "state_written_outside_mutators", f"{name}: {r['state']} -> {states[k]} (no mutator call)")
        if is_starved(k):
            ctx.count("starved_tasks_judged")
            if states[k] != "CANCELLED" and ctx.status == "ended":
                ctx.violate("C06", "starved_not_cancelled", f"{name} is {states[k]} although a predecessor was cancelled")
            if r is not None and r["starts"]:
                # a start after the cancellation of an ancestor
                anc_cancel = min((ctx.by_key[p].get("cancelled") for p in _ancestors(ctx, k)
                                  if p in ctx.by_key and ctx.by_key[p].get("cancelled") is not None), default=None)
                if anc_cancel is not None and r["starts"][0] > anc_cancel:
                    ctx.violate("C06", "starved_task_started", f"{name} started at {r['starts'][0]}, ancestor cancelled at {anc_cancel}")
    if ctx.status == "ended" and ctx.end_time is not None and ctx.end_time < timeout:
        ctx.count("early_end_judged")
        left = []
        for k, t in tasks_by_key.items():
            st = states[k]
            if st in ("SCHEDULED", "RUNNING"):
                left.append((f"{k[1]}@{k[2]} of {k[0]}", st))
            elif st == "RELEASED":
                spec = ctx.task_spec[k]
                if any(any(all(req.get(n, 0) <= w["cap"].get(n, 0) for n in req) for p in world["pools"] for w in p["workers"])
                       for req, _ in spec["strategies"]):
                    left.append((f"{k[1]}@{k[2]} of {k[0]}", st))
        if left:
            ctx.violate("C05", "ended_with_work_remaining", f"ended at {ctx.end_time} < timeout {timeout} with {left[:6]}")


def _release_rows_check(ctx, rows, tasks_by_key):
    """C08: every TASK_RELEASE row carries the task's own name, timestamp, graph, deadline, the time of the release and the
    runtime and resources of ITS slowest strategy (harness' own description of the task)."""
    by_id = {t.id: (k, t) for k, t in tasks_by_key.items()}
    for row in rows:
        p = row.split(",")
        if len(p) < 10 or p[1] != "TASK_RELEASE":
            continue
        ctx.count("release_rows_judged")
        ent = by_id.get(p[7])
        if ent is None:
            ctx.violate("C08", "release_row_unknown_task", row[:200])
            continue
        k, t = ent
        spec = ctx.task_spec[k]
        r = ctx.by_key.get(k)
        name = f"{k[1]}@{k[2]} of {k[0]}"
        if p[2] != k[1] or p[3] != str(k[2]) or p[8] != k[0]:
            ctx.violate("C08", "release_row_identity", f"{name}: row says {p[2]}, {p[3]}, {p[8]}")
        if r is not None and r["released"] is not None and (int(p[0]) != r["released"] or int(p[5]) != r["released"]):
            ctx.violate("C08", "release_row_time", f"{name}: released at {r['released']}, row time {p[0]} release column {p[5]}")
        if int(p[6]) != spec["deadline"]:
            ctx.violate("C08", "release_row_deadline", f"{name}: deadline {spec['deadline']}, row says {p[6]}")
        slow = max(rt for _, rt in spec["strategies"])
        if int(p[9]) != slow:
            ctx.violate("C08", "release_row_runtime", f"{name}: slowest strategy runs {slow}, row says {p[9]}")
        slowest = [req for req, rt in spec["strategies"] if rt == slow]
        if len(slowest) == 1:
            got = {}
            for i in range(10, len(p) - 2, 3):
                got[p[i]] = got.get(p[i], 0) + int(p[i + 2])
            ctx.count("release_rows_resources_judged")
            if got != {n: q for n, q in slowest[0].items() if q}:
                ctx.violate("C08", "release_row_resources", f"{name}: slowest strategy needs {slowest[0]}, row says {got} ({','.join(p[10:])})")


def _ancestors(ctx, k):
    seen, stack = set(), list(ctx.parents.get(k, ()))
    while stack:
        p = stack.pop()
        if p in seen:
            continue
        seen.add(p)
        stack.extend(ctx.parents.get(p, ()))
    return seen


def _make_chaos(policy, pools_desc):
    from schedulers import BaseScheduler
    from utils import EventTime
    from workload import BatchStrategy, Placement, Placements
    rng = random.Random(policy["seed"])
    srng = random.Random(policy["seed"] + 1)  # the shadow invocations draw from their own stream

    class ChaosScheduler(BaseScheduler):
        def __init__(self):
            super().__init__(runtime=EventTime.zero(), lookahead=EventTime(policy["lookahead"], EventTime.Unit.US),
                             retract_schedules=policy["retract"], release_taskgraphs=policy["release_taskgraphs"])

        def schedule(self, sim_time, workload, worker_pools):
            if _CTX is not None and _CTX.shadow:
                _shadow_invocations(_CTX, sim_time, workload, worker_pools, policy, srng)
            tasks = workload.get_schedulable_tasks(sim_time, lookahead=self.lookahead, preemption=False,
                                                   retract_schedules=self.retract_schedules, worker_pools=worker_pools,
                                                   release_taskgraphs=self.release_taskgraphs)
            out = []
            batches = {}  # batches opened in this answer
            pools = list(worker_pools.worker_pools)
            latency = EventTime(policy.get("runtime", 0), EventTime.Unit.US)
            decided_at, sim_time = sim_time, sim_time + latency  # nothing can be planned before the answer is applied
            for task in tasks:
                if task.state.name == "SCHEDULED" and rng.random() >= policy.get("p_replan", 1.0):
                    continue  # leaves an earlier plan alone (no decision for this task)
                prev0 = _CTX.policy_decision.get(id(task)) if _CTX is not None else None
                if (policy.get("runtime") and task.state.name == "SCHEDULED"
                        and (prev0 is None or not prev0.is_placed() or prev0.placement_time <= sim_time)):
                    # this task may start before the answer is applied: a cancellation or a retraction of a task that runs
                    # by then is outside what the properties speak about (the simulator preempts it / refuses); it is
                    # either left alone or planned again
                    if _CTX is not None:
                        _CTX.count("chaos_replans_of_task_that_may_start_meanwhile")
                    stale_risk = True
                else:
                    stale_risk = False
                if stale_risk:
                    pass
                elif rng.random() < policy.get("p_cancel", 0.0) and task.state.name != "RUNNING":
                    out.append(Placement.create_task_cancellation(task))
                    if _CTX is not None:
                        _CTX.count("chaos_cancellations")
                    continue
                elif rng.random() < policy["p_unplaced"]:
                    out.append(Placement.create_task_placement(task=task, placement_time=None, worker_pool_id=None,
                                                               execution_strategy=None))
                    continue
                pool = rng.choice(pools)
                strat = rng.choice(list(task.available_execution_strategies))
                when = sim_time + EventTime(rng.randint(0, policy["max_offset"]), EventTime.Unit.US)
                rt = task.release_time
                if rt is not None and not rt.is_invalid() and when < rt:
                    when = rt  # planning a task before its own release time is a policy bug the simulator asserts on
                wid = rng.choice(pool.workers).id if policy["pin_worker"] and (policy.get("pin_all") or rng.random() < 0.5) else None
                prev = _CTX.policy_decision.get(id(task)) if _CTX is not None else None
                if (task.state.name == "SCHEDULED" and prev is not None and prev.is_placed() and prev.placement_time >= sim_time
                        and rng.random() < 0.4):
                    # re-plan that keeps time and place and only (possibly) changes the strategy
                    when, wid = prev.placement_time, prev.worker_id
                    pool = next((p for p in pools if p.id == prev.worker_pool_id), pool)
                    if pool.id != prev.worker_pool_id:
                        wid = None
                    _CTX.count("chaos_same_slot_replans")
                if strat.batch_size > 1 and rng.random() < policy.get("p_batch", 0.0):
                    # members of one batch: same job (same strategy by value), one BatchStrategy object, one pool / worker
                    key = (task.task_graph, task.job.name, strat.runtime.time, str(sorted((r.name, q) for r, q in strat.resources.resources)))
                    open_batch = batches.get(key)
                    if open_batch is None or open_batch["n"] >= strat.batch_size:
                        open_batch = {"strategy": BatchStrategy(execution_strategy=strat), "pool": pool, "wid": wid, "when": when, "n": 0}
                        batches[key] = open_batch
                        if _CTX is not None:
                            _CTX.count("chaos_batches")
                    open_batch["n"] += 1
                    strat, pool, wid = open_batch["strategy"], open_batch["pool"], open_batch["wid"]
                    if rng.random() < 0.6:
                        when = max(open_batch["when"], when) if rng.random() < 0.5 else open_batch["when"]
                        rt = task.release_time
                        if when < sim_time or (rt is not None and not rt.is_invalid() and when < rt):
                            when = max(sim_time, rt) if (rt is not None and not rt.is_invalid()) else sim_time
                    if _CTX is not None:
                        _CTX.count("chaos_batch_members")
                out.append(Placement.create_task_placement(task=task, placement_time=when, worker_pool_id=pool.id, worker_id=wid,
                                                           execution_strategy=strat))
            if _CTX is not None and policy.get("p_load") and rng.random() < policy["p_load"]:
                loadable = [pr for pr in _CTX.profiles.values() if len(pr.loading_strategies) > 0]
                if loadable:
                    prof = rng.choice(loadable)
                    pool = rng.choice(pools)
                    worker = rng.choice(pool.workers)
                    key = (id(prof), worker.id)
                    loaded_at = _CTX.profile_where.get(key)
                    if loaded_at is not None and loaded_at >= sim_time.time:
                        pass  # its load has not been applied yet: nothing to evict, and no second load
                    elif loaded_at is not None:
                        # evict what this policy loaded earlier
                        out.append(Placement.create_evict_profile_placement(work_profile=prof, placement_time=sim_time,
                                                                            worker_pool_id=pool.id, worker_id=worker.id))
                        _CTX.profile_where[key] = None
                        _CTX.count("chaos_evictions")
                        if rng.random() < 0.35:
                            # ... and load it straight back at the same instant (what Clockwork does when the model it evicted
                            # is the next it loads), with any of the profile's loading strategies that fits once it is evicted
                            ls2 = rng.choice(list(prof.loading_strategies))
                            held = sum(q for _, q in worker.resources.get_allocated_resources(prof)) if hasattr(worker.resources, "get_allocated_resources") else 0
                            free_after = {}
                            for res, q in ls2.resources.resources:
                                free_after[res.name] = worker.resources.get_available_quantity(res)
                            for res, q in worker.resources.get_allocated_resources(prof):
                                if res.name in free_after:
                                    free_after[res.name] += q
                            if all(free_after.get(res.name, 0) >= q for res, q in ls2.resources.resources):
                                out.append(Placement.create_load_profile_placement(work_profile=prof, placement_time=sim_time,
                                                                                   worker_pool_id=pool.id, loading_strategy=ls2,
                                                                                   worker_id=worker.id))
                                _CTX.profile_where[key] = sim_time.time
                                _CTX.count("chaos_reloads_in_place")
                    else:
                        ls = prof.loading_strategies.get_fastest_strategy()
                        # a load asked for 'now' is asked only when it fits now; one asked for later may find the worker full
                        # by then, which the simulator refuses by raising (see run_direct: a refused load is a legitimate end)
                        later = rng.random() < 0.12
                        if later or worker.can_accomodate_strategy(ls):
                            when = sim_time + EventTime(rng.randint(1, 6), EventTime.Unit.US) if later else sim_time
                            out.append(Placement.create_load_profile_placement(work_profile=prof, placement_time=when,
                                                                               worker_pool_id=pool.id, loading_strategy=ls,
                                                                               worker_id=worker.id))
                            _CTX.profile_where[key] = when.time
                            _CTX.count("chaos_loads")
                            if later:
                                _CTX.count("chaos_loads_for_later")
            if _CTX is not None:
                # the answer takes effect when the simulator applies it (SCHEDULER_FINISHED), not when it is computed
                _CTX.pending_decisions = [p for p in out if p.placement_type.name in ("PLACE_TASK", "CANCEL_TASK")]
                _CTX.count("chaos_calls")
                if policy.get("runtime"):
                    _CTX.count("chaos_calls_with_latency")
                _CTX.count("chaos_placements", sum(1 for p in out if p.placement_type.name == "PLACE_TASK" and p.is_placed()))
            return Placements(runtime=latency, true_runtime=EventTime.zero(), placements=out)
    return ChaosScheduler()


def _shadow_pols(ctx, policy):
    pols = getattr(ctx, "_pols", None)
    if pols is not None:
        return pols
    import schedulers as S
    from utils import EventTime
    US = EventTime.Unit.US
    z = EventTime.zero()
    la, retract, rtg = EventTime(policy["lookahead"], US), bool(policy["retract"]), bool(policy["release_taskgraphs"])
    disc = policy.get("shadow_discretization", 2)
    pols = [("EDF", "greedy", S.EDFScheduler(runtime=z, enforce_deadlines=False)),
            ("EDF_enforce", "greedy", S.EDFScheduler(runtime=z, enforce_deadlines=True)),
            ("FIFO", "greedy", S.FIFOScheduler(runtime=z, enforce_deadlines=policy["seed"] % 2 == 0)),
            ("LSF", "greedy", S.LSFScheduler(runtime=z))]
    if policy.get("pin_all"):
        # the planners read the worker of running / scheduled tasks from their placement: only worlds in which every
        # decision names its worker give them the input they are written for
        pols += [("ILP_goodput", "planner", S.ILPScheduler(runtime=z, lookahead=la, enforce_deadlines=True, goal="max_goodput",
                                                           retract_schedules=retract, release_taskgraphs=rtg)),
                 ("ILP_slack", "planner", S.ILPScheduler(runtime=z, lookahead=la, enforce_deadlines=False, goal="max_slack",
                                                         retract_schedules=retract, release_taskgraphs=rtg)),
                 ("TetriSched_Gurobi", "planner", S.TetriSchedGurobiScheduler(
                     runtime=z, lookahead=la, enforce_deadlines=True, retract_schedules=retract, release_taskgraphs=rtg,
                     goal="max_goodput", time_discretization=EventTime(disc, US), plan_ahead=EventTime(12, US),
                     time_limit=EventTime(-1, US)))]
        if not rtg:
            pols.append(("TetriSched_CPLEX", "planner", S.TetriSchedCPLEXScheduler(
                runtime=z, lookahead=la, enforce_deadlines=True, retract_schedules=retract, goal="max_goodput",
                time_discretization=EventTime(disc, US), plan_ahead=EventTime(8, US), time_limit=EventTime(-1, EventTime.Unit.S))))
        pols.append(("Z3", "z3", S.Z3Scheduler(runtime=z, lookahead=la, enforce_deadlines=False, goal="max_slack",
                                               retract_schedules=retract, release_taskgraphs=rtg)))
    for _, _, p in pols:
        p._logger.handlers.clear()
        p._logger.addHandler(logging.NullHandler())
        p._logger.setLevel(logging.CRITICAL)
        p._logger.propagate = False
    ctx._pols = pols
    return pols


def _shadow_invocations(ctx, sim_time, workload, worker_pools, policy, rng):
    """C10 on states only this harness reaches: the bundled policies are invoked on the live state of a chaos-driven run,
    their answers are judged by policymon.check_decision against the harness' own records and discarded."""
    import os
    import traceback
    from . import policymon
    now = sim_time.time
    base = {"t": now, "preemptive": False, "running": [], "scheduled": {}, "release_known": {},
            "states": {tid: t._state.name for tid, t in ctx.task_obj.items()},
            "workers": {wi["wid"]: {"pool": wi["pool"], "cap": wi["cap"]} for wi in ctx.worker_info.values()}, "pools": {}}
    for wi in ctx.worker_info.values():
        base["pools"].setdefault(wi["pool"], []).append(wi["wid"])
    for widk, res in ctx.resident.items():
        wi = ctx.worker_info[widk]
        for key, ent in res.items():
            ends = [now + ctx.task_obj[tid]._remaining_time.time for tid in ent["members"] if tid in ctx.task_obj]
            base["running"].append({"task": ",".join(ctx.task_obj[tid].unique_name for tid in ent["members"] if tid in ctx.task_obj),
                                    "worker": wi["wid"], "pool": wi["pool"], "end": max(ends) if ends else now, "demand": ent["demand"]})
    for tid, t in ctx.task_obj.items():
        r = ctx.rec[tid]
        base["release_known"][tid] = r["released"] if r["released"] is not None else t._release_time.time
        pd = ctx.policy_decision.get(tid)
        if t._state.name == "SCHEDULED" and pd is not None and pd.is_placed() and pd.execution_strategy is not None:
            start = max(pd.placement_time.time, now)
            base["scheduled"][tid] = {"task": t.unique_name, "pool": pd.worker_pool_id, "worker": pd.worker_id, "start": start,
                                      "planned": pd.placement_time.time,
                                      "end": start + pd.execution_strategy.runtime.time,
                                      "demand": policymon.demand_of(pd.execution_strategy)}
    # the planners key their variables by Task.unique_name (name@graph): graphs that hold several timestamps of one job
    # under one name are not input they are written for
    planners_now = ctx.planner_rounds < 6 and rng.random() < 0.3 and not ctx.name_collisions and not policy.get("p_batch")
    if planners_now:
        ctx.planner_rounds += 1
    rstate = random.getstate()
    try:
        for name, kind, pol in _shadow_pols(ctx, policy):
            if kind != "greedy" and not planners_now:
                continue
            call = dict(base, policy=type(pol).__name__, offered=None, shadow=True)
            dig_c, dig_t = policymon.cluster_digest(worker_pools), policymon.tasks_digest(workload)
            ctx.shadow_call = call
            try:
                if kind != "greedy":
                    # size guard (solver licence limits): what would be offered under the mirrored frontier options
                    import workload as wlm
                    noff = len(workload.get_schedulable_tasks(sim_time, pol.lookahead, False, pol.retract_schedules, worker_pools,
                                                              getattr(pol, "policy", wlm.BranchPredictionPolicy.ALL), 0.5,
                                                              pol.release_taskgraphs))
                    call["offered"] = None
                    if noff == 0 or noff > (4 if kind == "z3" else 8):
                        ctx.count("shadow_skipped_large" if noff else "shadow_skipped_empty")
                        continue
                slow = ctx.__dict__.setdefault("_shadow_slow", {})
                if slow.get(name, 0) >= 2:
                    ctx.count("shadow_skipped_slow")
                    continue
                budget = common.call_budget(8)
                with budget:
                    ret = pol.schedule(sim_time, workload, worker_pools)
            except BaseException as e:  # noqa
                if isinstance(e, common.SolverAborted) and budget.fired:
                    ctx.count("shadow_calls_cut_short")  # one slow solve (wall-clock: tooling, never a verdict)
                    slow[name] = slow.get(name, 0) + 1
                    continue
                if isinstance(e, (KeyboardInterrupt, Watchdog, WallClock, common.SolverAborted)):
                    raise
                if (type(e).__name__ == "GurobiError" and "size-limited" in str(e)) or type(e).__name__ == "DOcplexLimitsExceeded":
                    ctx.count("shadow_tooling_limit")
                    continue
                tb = traceback.extract_tb(e.__traceback__)
                frames = [f for f in tb if f.filename.startswith(common.REPO)]
                where = f"{os.path.relpath(frames[-1].filename, common.REPO)}:{frames[-1].name}" if frames else "?"
                ctx.violate("C10", f"schedule_raises:{type(e).__name__}@{where}",
                            f"shadow {name} at t={now}: {type(e).__name__}: {str(e)[:200]}", policy=type(pol).__name__, shadow=name)
                continue
            finally:
                ctx.shadow_call = None
            ctx.count("shadow_calls")
            ctx.count("shadow_calls_" + type(pol).__name__)
            if call["running"] or call["scheduled"]:
                ctx.count("shadow_calls_busy")
            pls = list(ret)
            if any(call["release_known"].get(id(t), -1) > now for t in (call["offered"] or [])):
                ctx.count("shadow_calls_offered_future_release")
            if policymon.cluster_digest(worker_pools) != dig_c:
                ctx.violate("C10", "side_effect_cluster", f"{name} at {now} changed the live cluster", policy=type(pol).__name__)
            if policymon.tasks_digest(workload) != dig_t:
                ctx.violate("C10", "side_effect_tasks", f"{name} at {now} changed task state", policy=type(pol).__name__)
            policymon.check_decision(call, pls, lambda k, d: ctx.violate(
                "C10", k, f"{name} (shadow, chaos state) at t={now}: {d}", policy=type(pol).__name__, greedy=(kind == "greedy"),
                **({"deferred_pending": bool((call.get("joint_facts") or {}).get("deferred_pending"))} if k.startswith("joint_capacity") else {})))
            if call.get("input_infeasible"):
                ctx.count("shadow_calls_input_infeasible")
            call["placements"] = pls
            for hook in ctx.decision_hooks:  # same signature as the decision hooks of the e2e runs (C11, C12)
                hook(ctx, call, pol, sim_time, workload, worker_pools)
    finally:
        ctx.shadow_call = None
        random.setstate(rstate)


_INSTALLED = False


def run_direct(world, wall_s=30, shadow=False, decision_hooks=()):
    """returns Ctx with .viol, .counters, .status"""
    global _CTX, _INSTALLED
    import signal
    from data import BaseWorkloadLoader
    from simulator import Simulator
    from utils import EventTime
    import workload as wl
    import workers as wk
    common.reset_logging()
    common.reset_repo_globals()
    lg = logging.getLogger("direct")
    lg.addHandler(logging.NullHandler())
    lg.propagate = False
    lg.setLevel(logging.CRITICAL)
    # without flags the repository's setup_logging() gives these loggers a DEBUG stream handler on stdout; a logger that
    # already has a handler is returned as it is, so pre-create them silent (the monitors read no log here)
    for name in ("Simulator", "Simulator_CSV", "Workload", "ChaosScheduler", "Resources", "Task", "Worker", "WorkerPool", "WorkerPools"):
        q = logging.getLogger(name)
        q.addHandler(logging.NullHandler())
        q.propagate = False
        q.setLevel(logging.CRITICAL)
    # C08: the trace rows are captured (not written anywhere) and the TASK_RELEASE rows judged against the harness' own
    # description of each task after the run
    csv_rows = []
    cq = logging.getLogger("Simulator_CSV")
    cq.setLevel(logging.DEBUG)
    cq.addHandler(common.ListHandler(csv_rows))
    if not _INSTALLED:
        _install()
        _INSTALLED = True

    def us(t):
        return EventTime(t, EventTime.Unit.US)
    ctx = Ctx(world)
    ctx.shadow = shadow
    ctx.decision_hooks = list(decision_hooks)
    ctx.by_key, ctx.parents, ctx.caps = {}, {}, {}
    pools = []
    for p in world["pools"]:
        ws = []
        for w in p["workers"]:
            wo = wk.Worker(name=w["name"], resources=wl.Resources(resource_vector={wl.Resource(name=n, _id="any"): q for n, q in w["cap"].items()},
                                                                 _logger=lg), _logger=lg)
            ctx.caps[id(wo)] = dict(w["cap"])
            ws.append(wo)
        pools.append(wk.WorkerPool(name=p["name"], workers=ws, _logger=lg))
        for wo in ws:
            ctx.worker_info[id(wo)] = {"wid": wo.id, "pool": pools[-1].id, "cap": dict(ctx.caps[id(wo)])}
    tgs = {}
    all_tasks = {}
    for g in world["graphs"]:
        objs = {}
        for t in g["tasks"]:
            strategies = wl.ExecutionStrategies(strategies=[
                wl.ExecutionStrategy(resources=wl.Resources(resource_vector={wl.Resource(name=n, _id="any"): q for n, q in req.items()}, _logger=lg),
                                     batch_size=t.get("batch_size", 1), runtime=us(rt)) for req, rt in t["strategies"]])
            loading = wl.ExecutionStrategies()
            if t.get("loading"):
                lreq, lrt = t["loading"]
                loading = wl.ExecutionStrategies(strategies=[wl.ExecutionStrategy(
                    resources=wl.Resources(resource_vector={wl.Resource(name=n, _id="any"): q for n, q in lreq.items()}, _logger=lg),
                    batch_size=1, runtime=us(lrt)) for lreq, lrt in [t["loading"]] + ([t["loading2"]] if t.get("loading2") else [])])
            pkey = (g["name"], t["job"])
            if pkey not in ctx.profiles:
                ctx.profiles[pkey] = wl.WorkProfile(name=f"stage_{t['job'][2:]}_profile", execution_strategies=strategies,
                                                    loading_strategies=loading)
            # the name of a profile is not its identity: like the trace loaders (one profile name per stage name, reused by
            # every application) the same name is given to the profiles of different graphs
            prof = ctx.profiles[pkey] if t.get("loading") else wl.WorkProfile(
                name=f"stage_{t['job'][2:]}_profile", execution_strategies=strategies)
            ctx.task_spec[(g["name"], t["job"], t["ts"])] = t
            objs[(t["job"], t["ts"])] = wl.Task(name=t["job"], task_graph=g["name"], job=wl.Job(name=t["job"], profile=prof),
                                                deadline=us(t["deadline"]), timestamp=t["ts"], release_time=us(t["release"]), _logger=lg)
        tg = wl.TaskGraph(name=g["name"], job_graph=wl.JobGraph(name=g["name"]))
        kids = {k: [] for k in objs}
        for a, b in g["edges"]:
            kids[tuple(a)].append(objs[tuple(b)])
            ctx.parents.setdefault((g["name"], b[0], b[1]), []).append((g["name"], a[0], a[1]))
        for k, o in objs.items():
            tg.add_task(o, kids[k])
            key = (g["name"], k[0], k[1])
            all_tasks[key] = o
            ctx.rec[id(o)] = ctx.by_key[key] = {"key": key, "released": None, "starts": [], "finishes": [], "decision": None}
            ctx.task_obj[id(o)] = o
        tgs[g["name"]] = tg
    workload = wl.Workload.from_task_graphs(tgs)
    names = [t.unique_name for t in all_tasks.values()]
    ctx.name_collisions = len(names) != len(set(names))

    class OneShot(BaseWorkloadLoader):
        def __init__(self):
            self._done = False

        def get_next_workload(self, current_time):
            if self._done:
                return None
            self._done = True
            return workload
    stream = None
    if world.get("loader"):
        # a streaming loader in the manner of data/alibaba_loader.py: every update returns the accumulated Workload with the
        # graphs whose first release falls before the next update added to it, None once everything has been handed over and
        # an update finds nothing new.  A window without arrivals returns the (possibly still empty) Workload again.
        interval = world["loader"]["interval"]
        arrival = {g["name"]: min(t["release"] for t in g["tasks"] if t["release"] >= 0) for g in world["graphs"]}

        class Stream(BaseWorkloadLoader):
            def __init__(self):
                self.acc = wl.Workload.from_task_graphs({})
                self.pending = sorted(arrival, key=lambda n: arrival[n])

            def get_next_workload(self, current_time):
                horizon = current_time.time + (interval if interval > 0 else 0)
                new = [n for n in self.pending if arrival[n] <= horizon]
                if not self.pending:
                    return None
                ctx.count("loader_updates")
                if not new:
                    ctx.count("loader_quiet_windows")
                for n in new:
                    self.acc.add_task_graph(tgs[n])
                    self.pending.remove(n)
                    ctx.count("loader_graphs_handed_over")
                return self.acc
        stream = Stream()
    sched = _make_chaos(world["policy"], world["pools"])
    status, exc = "ended", None
    t0 = _time.time()

    def alarm(signum, frame):
        common.alarm_fired()  # shadow-invoked planners: a raise inside a solver callback is swallowed (see common.py)
        raise WallClock("wall-clock alarm")
    if shadow:
        common.install_solver_guard()
    old = signal.signal(signal.SIGALRM, alarm)
    signal.alarm(wall_s)
    _CTX = ctx
    try:
        sim = Simulator(worker_pools=wk.WorkerPools(pools), scheduler=sched, workload_loader=stream or OneShot(),
                        loop_timeout=us(world["timeout"]), scheduler_frequency=us(world["frequency"]))
        if stream is not None and world["loader"]["interval"] > 0:
            # what --workload_update_interval sets (the constructor only reads it from absl flags)
            sim._workload_update_interval = us(world["loader"]["interval"])
        sim.simulate()
        if stream is not None and ctx.ended and ctx.end_time is not None and ctx.end_time < world["timeout"] and stream.pending:
            ctx.violate("C05", "ended_before_workload_arrived",
                        f"ended at {ctx.end_time} < timeout {world['timeout']} while the loader still held {stream.pending} "
                        f"(first releases { {n: arrival[n] for n in stream.pending} })")
        if not ctx.ended:
            status = "no_end_event"
    except Watchdog as e:
        status, exc = "watchdog", str(e)
        ctx.violate("C05", "livelock", str(e))
    except (WallClock, common.SolverAborted):
        status = "wallclock"
    except Exception as e:  # the simulator refusing a legal answer of the policy, or an internal error
        import traceback
        tb = traceback.extract_tb(e.__traceback__)
        where = next((f"{f.filename.split('/')[-1]}:{f.name}" for f in reversed(tb) if "/vmon/" not in f.filename), "?")
        status, exc = "exception", f"{type(e).__name__}@{where}: {e}"
        if isinstance(e, ValueError) and any(f.name == "load_profile" for f in tb):
            # the one hostile answer that is not legal input: a profile load asked for a later time that no longer fits when
            # it is applied.  The simulator refuses it by raising; the run is over, nothing is judged beyond this point.
            status = "refused_load"
            ctx.count("refused_loads")
            ctx.status, ctx.exception, ctx.wall = status, exc, _time.time() - t0
            signal.alarm(0)
            signal.signal(signal.SIGALRM, old)
            _CTX = None
            return ctx
        # every decision of the chaos policy is legal input (own strategies, existing pools, times >= now and >= release):
        # an exception escaping simulate() means the run did not reach its end event
        ctx.violate("C05", f"exception:{type(e).__name__}@{where}", str(e)[:300])
    finally:
        signal.alarm(0)
        signal.signal(signal.SIGALRM, old)
        common.alarm_cleared()
        _CTX = None
    ctx.status, ctx.exception, ctx.wall = status, exc, _time.time() - t0
    if status == "no_end_event":
        ctx.violate("C05", "no_simulator_end", "simulate() returned without handling SIMULATOR_END")
    if status in ("ended", "no_end_event"):
        _final_checks(ctx, world, all_tasks, world["timeout"])
        _release_rows_check(ctx, csv_rows, all_tasks)
    return ctx
