"""Check driver: shards a check over worker processes, merges results, applies the
known-findings classifier, writes evidence, prints the verdict.

Exit codes: 0 held on everything explored (known findings are printed),
            1 VIOLATION (a line `VIOLATION property=<id> replay=<path>` per witness),
            2 INCONCLUSIVE (deciding monitor not reached / too few non-trivial cases / timeouts),
            3 harness error (a shard crashed) — the check is broken, nothing it says is believed.
"""
import importlib
import json
import os
import shutil
import subprocess
import sys
import time

from . import common, known

CHECKS = {
    "C01": "vmon.checks.e2e_checks", "C02": "vmon.checks.e2e_checks", "C03": "vmon.checks.e2e_checks",
    "C05": "vmon.checks.e2e_checks", "C06": "vmon.checks.e2e_checks", "C07": "vmon.checks.e2e_checks",
    "C08": "vmon.checks.e2e_checks",
    "C04": "vmon.checks.c04_ledger", "C09": "vmon.checks.c09_repro", "C10": "vmon.checks.c10_policy",
    "C11": "vmon.checks.c11_order", "C12": "vmon.checks.c12_deadline", "C13": "vmon.checks.c13_priority",
    "C14": "vmon.checks.c14_goodput", "C15": "vmon.checks.c15_clockwork", "C16": "vmon.checks.c16_time",
    "C17": "vmon.checks.c17_graphs", "C18": "vmon.checks.c18_frontier", "C19": "vmon.checks.c19_loaders",
    "C20": "vmon.checks.c20_strl",
}


def load_check(pid):
    mod = importlib.import_module(CHECKS[pid])
    return mod.get_check(pid)


def _run_shards(pid, specs, tier, timeout_s):
    workdir = os.path.join(common.OUT, f"run-{pid}-{os.getpid()}")
    shutil.rmtree(workdir, ignore_errors=True)
    os.makedirs(workdir)
    env = dict(os.environ)
    env["PYTHONDONTWRITEBYTECODE"] = "1"
    env.setdefault("PYTHONHASHSEED", "0")
    env["PYTHONPATH"] = common.VERIF + os.pathsep + env.get("PYTHONPATH", "")
    maxpar = int(os.environ.get("VERIF_JOBS", "16"))
    pending = list(enumerate(specs))
    running = []
    results = [None] * len(specs)
    errors = []
    t0 = time.time()
    while pending or running:
        while pending and len(running) < maxpar:
            i, spec = pending.pop(0)
            sp = os.path.join(workdir, f"spec{i}.json")
            op = os.path.join(workdir, f"out{i}.json")
            with open(sp, "w") as f:
                json.dump(spec, f)
            lp = open(os.path.join(workdir, f"log{i}.txt"), "w")
            pr = subprocess.Popen([common.PY, "-m", "vmon.shard", pid, sp, op, os.path.join(workdir, f"w{i}")],
                                  stdout=lp, stderr=subprocess.STDOUT, env=env, cwd=common.VERIF)
            running.append((i, pr, op, lp, time.time()))
        still = []
        for i, pr, op, lp, ts in running:
            rc = pr.poll()
            if rc is None:
                if time.time() - ts > timeout_s:
                    pr.kill()
                    pr.wait()
                    lp.close()
                    results[i] = {"_timeout": True}
                else:
                    still.append((i, pr, op, lp, ts))
                continue
            lp.close()
            if rc != 0 or not os.path.exists(op):
                tail = open(os.path.join(workdir, f"log{i}.txt")).read()[-3000:]
                errors.append(f"shard {i} exit {rc}:\n{tail}")
            else:
                with open(op) as f:
                    results[i] = json.load(f)
        running = still
        if running:
            time.sleep(0.05)
    return results, errors, workdir, time.time() - t0


def save_replay(pid, case, violation):
    d = os.path.join(common.OUT, "replays", pid)
    os.makedirs(d, exist_ok=True)
    name = common.case_hash([case, violation.get("kind")]) + ".json"
    path = os.path.join(d, name)
    with open(path, "w") as f:
        json.dump({"property": pid, "case": case, "violation": violation}, f, indent=1, default=str)
    return path


def write_evidence(pid, tier, seed, level, coverage, wall, nviol, assumptions):
    os.makedirs(common.EVIDENCE, exist_ok=True)
    ev = {"property_id": pid, "tier": tier, "seed": seed, "level": level, "coverage": coverage,
          "assumptions": assumptions, "wall_s": round(wall, 2), "violations": nviol}
    with open(os.path.join(common.EVIDENCE, f"{pid}.json"), "w") as f:
        json.dump(ev, f, indent=1, default=str)


def main(argv):
    import argparse
    ap = argparse.ArgumentParser()
    ap.add_argument("pid")
    ap.add_argument("--tier", default=os.environ.get("VERIF_TIER", "quick"))
    ap.add_argument("--replay")
    ap.add_argument("--seed", type=int, default=int(os.environ.get("VERIF_SEED", "0")))
    ap.add_argument("--keep", action="store_true")
    a = ap.parse_args(argv)
    pid = a.pid
    if pid not in CHECKS:
        print(f"unknown property {pid}")
        return 3
    chk = load_check(pid)
    from . import suitemon
    suite_only = False
    if a.replay:
        with open(a.replay) as f:
            rp = json.load(f)
        if isinstance(rp.get("case"), dict) and "suite_test" in rp["case"]:
            specs, suite_only = [{"_suite": True, "only": rp["case"]["suite_test"]}], True
        else:
            specs = [chk.replay_spec(rp["case"])]
    else:
        specs = chk.shards(a.tier, a.seed)
        if pid in suitemon.SUITE_PIDS:
            specs = specs + [{"_suite": True}]
    t0 = time.time()
    budget = chk.shard_timeout(a.tier)
    results, errors, workdir, wall = _run_shards(pid, specs, a.tier, budget)
    if errors:
        print(f"ERROR property={pid} harness failure in {len(errors)} shard(s)")
        for e in errors[:3]:
            print(e)
        return 3
    timeouts = sum(1 for r in results if r and r.get("_timeout"))
    results = [r for r in results if r and not r.get("_timeout")]
    suite = [r for r in results if r.get("_suite")]
    results = [r for r in results if not r.get("_suite")]
    if suite_only:
        out = {"violations": [], "coverage": {}, "inconclusive": [], "assumptions": []}
    else:
        out = chk.conclude(results, a.tier, a.seed)
    for rec in suite:
        # the repository's own tests as one more workload (vmon/suitemon.py): only this property's monitors count
        for v in rec["viol"]:
            if v["pid"] == pid:
                out["violations"].append({"kind": v["kind"], "detail": v["detail"], "facts": {"workload": "suite"},
                                          "case": {"suite_test": v["test"]}, "case_id": common.case_hash([v["test"], v["kind"]])})
        cnt = {k: n for k, n in rec["counters"].items() if k.startswith(pid.lower() + "_") or k.startswith("tests_")}
        out["coverage"]["suite_under_monitors"] = {"counters": cnt, "suite_exit": rec.get("suite_rc"), "wall_s": rec.get("wall_s"),
                                                   "rule": "the repository's pinned tests run once with this property's context-free "
                                                           "monitors attached to the classes (record-only)"}
        if not suite_only:
            key, floor = suitemon.FLOORS[pid]
            if rec.get("errors") or rec["counters"].get("monitor_errors"):
                out.setdefault("inconclusive", []).append(f"suite monitors failed: {(rec.get('errors') or ['monitor_errors'])[0][:300]}")
            elif rec.get("suite_rc") != 0:
                out.setdefault("inconclusive", []).append(f"the repository's own tests do not pass on this tree (pytest exit {rec.get('suite_rc')}): "
                                                          f"{rec.get('tail', '')[-200:]!r}")
            elif rec["counters"].get(key, 0) < floor:
                out.setdefault("inconclusive", []).append(f"suite monitor {key}={rec['counters'].get(key, 0)} < {floor}")
    # out: dict(violations=[{kind, detail, case}], coverage={...}, inconclusive=[...], assumptions=[...], level=...)
    kf = known.load()
    unknown, known_hits = [], {}
    for v in out["violations"]:
        fid = known.classify(kf, pid, v)
        if fid is None:
            unknown.append(v)
        else:
            known_hits.setdefault(fid, []).append(v)
    cov = out["coverage"]
    cov["known_findings_observed"] = {k: len(v) for k, v in known_hits.items()}
    cov["shard_timeouts"] = timeouts
    nviol = len(unknown)
    if not a.replay:
        write_evidence(pid, a.tier, a.seed, out.get("level", "exploration"), cov, time.time() - t0, nviol,
                       out.get("assumptions", []))
    for fid, vs in sorted(known_hits.items()):
        print(f"KNOWN-FINDING: property={pid} {fid}: {known.describe(kf, fid)} (observed {len(vs)}x, e.g. {vs[0]['detail'][:160]})")
    rc = 0
    if unknown:
        seen = set()
        for v in unknown:
            key = v["kind"]
            if key in seen and len(seen) >= 1 and sum(1 for _ in seen) > 12:
                continue
            if (key, v.get("case_id")) in seen:
                continue
            seen.add((key, v.get("case_id")))
            if len(seen) > 15:
                break
            path = save_replay(pid, v.get("case"), {k: v[k] for k in v if k != "case"})
            print(f"VIOLATION property={pid} replay={path}")
            print(f"  kind={v['kind']} {v['detail'][:400]}")
        rc = 1
    elif (out.get("inconclusive") or timeouts) and not a.replay:  # a replay is one case: coverage floors do not apply
        why = "; ".join(out.get("inconclusive", []) + ([f"{timeouts} shard timeouts"] if timeouts else []))
        print(f"INCONCLUSIVE property={pid} {why}")
        rc = 2
    if a.replay and rc == 0:
        print(f"property={pid}: replayed case did not reproduce a violation")
    summary = {k: v for k, v in cov.items() if k not in ("samples", "rule")}
    print(f"property={pid} tier={a.tier} seed={a.seed} rc={rc} wall={time.time() - t0:.1f}s {json.dumps(summary, default=str)[:1500]}")
    if not a.keep:
        shutil.rmtree(workdir, ignore_errors=True)
    return rc
