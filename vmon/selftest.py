"""MANIFEST.setup_cmd: a no-op self check. Nothing is downloaded or installed."""
import shutil
import subprocess
import sys

from . import common  # noqa: F401  (puts /repo on sys.path)


def main():
    ok = True
    try:
        import main as repo_main  # noqa: F401
        import simulator  # noqa: F401
        print("repo import: ok")
    except Exception as e:  # pragma: no cover
        print("repo import FAILED:", e)
        ok = False
    try:
        import gurobipy as gp
        m = gp.Model()
        m.Params.LogToConsole = 0
        x = m.addVar(ub=1.0)
        m.setObjective(x, gp.GRB.MAXIMIZE)
        m.optimize()
        print("gurobi: ok", m.ObjVal)
    except Exception as e:
        print("gurobi unavailable:", e)
    try:
        import docplex.mp.model as cpx
        m = cpx.Model()
        x = m.continuous_var(ub=1)
        m.maximize(x)
        print("cplex: ok", m.solve().objective_value)
    except Exception as e:
        print("cplex unavailable:", e)
    try:
        from z3 import z3
        s = z3.Solver()
        s.add(z3.Int("x") > 1)
        print("z3: ok", s.check())
    except Exception as e:
        print("z3 unavailable:", e)
    gpp = shutil.which("g++")
    print("g++:", gpp)
    if gpp:
        r = subprocess.run([gpp, "--version"], capture_output=True, text=True)
        print(r.stdout.splitlines()[0] if r.stdout else r.stderr[:100])
    try:
        from .strl import build
        drv, info = build.build()
        print("C20 driver:", drv, info)
    except Exception as e:
        print("C20 driver build FAILED:", str(e)[-1500:])
        ok = False
    return 0 if ok else 1


if __name__ == "__main__":
    sys.exit(main())
