"""Solver-model probes (C11, C12): the real model object built by the real scheduler is
captured (wrappers on the schedulers' own _add_objective), and after schedule() returned
the harness asks the solver adversarial questions on a *copy* of that model:

  feasibility of a forbidden combination, or optimisation of an objective that rewards
  the violation, solved to gap 0.  A feasible point with the defect is a witness; an
  optimum on the safe side shows no feasible point of this model has the defect.

Gurobi models are copied (Model.copy) and variables are located by index; z3 models
are re-posed in a fresh Solver from Optimize.assertions() (hard constraints only).
"""
from . import common
from .common import wrap

_INSTALLED = False
GRB_LIMIT = "size-limited"


def install():
    global _INSTALLED
    if _INSTALLED:
        return
    _INSTALLED = True
    import schedulers as S

    def cap(kind):
        def after(ret, self, optimizer, tasks_to_variables, *a, **k):
            self.__dict__["_vmon_model"] = {"kind": kind, "optimizer": optimizer, "vars": tasks_to_variables}
        return after
    wrap(S.ILPScheduler, "_add_objective", after=cap("ilp"))
    wrap(S.TetriSchedGurobiScheduler, "_add_objective", after=cap("tetrisched_gurobi"))
    wrap(S.TetriSchedCPLEXScheduler, "_add_objective", after=cap("tetrisched_cplex"))
    wrap(S.Z3Scheduler, "_add_objective", after=cap("z3"))


def take(pol):
    return pol.__dict__.pop("_vmon_model", None)


# ---------------------------------------------------------------------------
# gurobi helpers
# ---------------------------------------------------------------------------
def _gcopy(optimizer):
    import gurobipy as gp
    optimizer.update()
    m = optimizer.copy()
    m.Params.LogToConsole = 0
    m.Params.OutputFlag = 0
    m.Params.MIPGap = 0
    m.Params.MIPGapAbs = 0
    m.Params.Threads = 2
    m.Params.TimeLimit = 30
    return m


def _gv(m2, v):
    """the copy's variable for original variable v (ints pass through)."""
    import gurobipy as gp
    if isinstance(v, gp.Var):
        return m2.getVars()[v.index]
    return v


def _gsolve(m, report_limit):
    import gurobipy as gp
    try:
        m.optimize()
    except gp.GurobiError as e:
        if GRB_LIMIT in str(e):
            report_limit()
            return None
        raise
    return m.Status


def _rt(strategy):
    return strategy.runtime.time


def expected_finish_weakest(task, now, nominal_start=None):
    """earliest plausible expected finish of a running task (see DESIGN C10/C11)."""
    end = now + task.remaining_time.time
    pl = task.current_placement
    if nominal_start is not None and pl is not None and pl.execution_strategy is not None:
        end = min(end, max(now, nominal_start + pl.execution_strategy.runtime.time))
    return end


# ---------------------------------------------------------------------------
# C11 probes
# ---------------------------------------------------------------------------
def probe_precedence(model, now, parents_of, counters, report, start_of=None):
    """model: captured dict.  parents_of(task) -> list of parent Task objects.
    counters: dict to bump.  report(kind, detail)."""
    kind = model["kind"]
    if kind == "z3":
        return _probe_precedence_z3(model, now, parents_of, counters, report)
    if kind not in ("ilp", "tetrisched_gurobi"):
        return
    import gurobipy as gp
    from gurobipy import GRB
    opt, tv = model["optimizer"], model["vars"]
    by_task = {}
    for name, v in tv.items():
        if hasattr(v.task, "tasks"):  # BatchTask (batching mode): not probed
            continue
        by_task[id(v.task)] = v

    def bump(k, n=1):
        counters[k] = counters.get(k, 0) + n

    def limit():
        bump("probe_tooling_limit")

    def placed_expr(m2, v):
        if kind == "ilp":
            return gp.quicksum(_gv(m2, x) for x in v.placed_on_workers)
        return gp.quicksum(_gv(m2, x) for x in v.space_time_matrix.values())

    def start_expr(m2, v):
        if kind == "ilp":
            return _gv(m2, v.start_time) + 0
        return gp.quicksum(t * _gv(m2, x) for (w, t, s), x in v.space_time_matrix.items())

    def finish_expr(m2, v):
        if kind == "ilp":
            return _gv(m2, v.start_time) + gp.quicksum(_rt(s) * _gv(m2, x) for (w, s), x in v._placed_on_worker_with_strategy.items())
        return gp.quicksum((t + _rt(s)) * _gv(m2, x) for (w, t, s), x in v.space_time_matrix.items())

    for cid, cv in by_task.items():
        if cv.previously_placed:
            continue
        child = cv.task
        for parent in parents_of(child):
            pv = by_task.get(id(parent))
            if pv is None:
                continue
            bump("probe_pairs")
            pname = f"{parent.unique_name} -> {child.unique_name}"
            if pv.previously_placed:
                # running parent: child must not start before its expected finish
                m2 = _gcopy(opt)
                m2.addConstr(placed_expr(m2, cv) == 1)
                m2.setObjective(start_expr(m2, cv), GRB.MINIMIZE)
                st = _gsolve(m2, limit)
                bump("probes")
                if st == GRB.OPTIMAL:
                    ef = expected_finish_weakest(parent, now, start_of(parent) if start_of else None)
                    if m2.ObjVal < ef - 1e-6:
                        report("model_child_before_running_parent_finish",
                               f"{kind}: feasible point with {child.unique_name} starting at {m2.ObjVal:g} < expected finish {ef} of running {parent.unique_name}")
                continue
            # (a) child placed while the co-decided parent is not
            m2 = _gcopy(opt)
            m2.addConstr(placed_expr(m2, cv) == 1)
            m2.addConstr(placed_expr(m2, pv) == 0)
            m2.setObjective(0, GRB.MINIMIZE)
            st = _gsolve(m2, limit)
            bump("probes")
            if st == GRB.OPTIMAL or (st is not None and m2.SolCount > 0):
                report("model_child_placed_without_parent", f"{kind}: {pname}: the model has a feasible point with the child placed and the parent unplaced")
            # (b) both placed, child as early as possible relative to the parent's finish
            m2 = _gcopy(opt)
            m2.addConstr(placed_expr(m2, cv) == 1)
            m2.addConstr(placed_expr(m2, pv) == 1)
            m2.setObjective(start_expr(m2, cv) - finish_expr(m2, pv), GRB.MINIMIZE)
            st = _gsolve(m2, limit)
            bump("probes")
            if st == GRB.OPTIMAL:
                bump("probe_both_placed_feasible")
                if m2.ObjVal < -1e-6:
                    report("model_child_before_parent_finish",
                           f"{kind}: {pname}: feasible point with child start - parent finish = {m2.ObjVal:g} < 0")


def _probe_precedence_z3(model, now, parents_of, counters, report):
    from z3 import z3
    opt, tv = model["optimizer"], model["vars"]
    by_task = {id(v.task): v for v in tv.values()}
    hard = opt.assertions()

    def bump(k, n=1):
        counters[k] = counters.get(k, 0) + n
    for cid, cv in by_task.items():
        for parent in parents_of(cv.task):
            pv = by_task.get(id(parent))
            if pv is None:
                continue
            bump("probe_pairs")
            pname = f"{parent.unique_name} -> {cv.task.unique_name}"
            s = z3.Solver()
            s.set("timeout", 20000)
            s.add(hard)
            s.push()
            s.add(cv.is_placed, z3.Not(pv.is_placed))
            r = s.check()
            bump("probes")
            if r == z3.sat:
                report("model_child_placed_without_parent", f"z3: {pname}: satisfiable with the child placed and the parent unplaced")
            elif r == z3.unknown:
                bump("probe_unknown")
            s.pop()
            s.add(cv.is_placed, pv.is_placed, cv.start_time < pv.start_time + parent.remaining_time.time)
            r = s.check()
            bump("probes")
            if r == z3.sat:
                mdl = s.model()
                report("model_child_before_parent_finish",
                       f"z3: {pname}: satisfiable with child start {mdl[cv.start_time]} < parent start {mdl[pv.start_time]} + {parent.remaining_time.time}")
            elif r == z3.unknown:
                bump("probe_unknown")
            else:
                bump("probe_both_placed_feasible")


# ---------------------------------------------------------------------------
# C12 probes
# ---------------------------------------------------------------------------
def probe_deadlines(model, now, counters, report, enforced):
    """enforced(task) -> bool: is the deadline of this task enforced by the policy's own rules."""
    kind = model["kind"]
    opt, tv = model["optimizer"], model["vars"]

    def bump(k, n=1):
        counters[k] = counters.get(k, 0) + n
    if kind in ("tetrisched_gurobi", "tetrisched_cplex"):
        # every feasible placement is one space-time cell that exists as a variable: inspect them all
        for name, v in tv.items():
            if v.previously_placed:
                continue
            if hasattr(v.task, "tasks"):
                # a batch (batching mode): every cell that exists as a variable must let EVERY member finish by its deadline
                bump("deadline_batches_probed")
                for (w, t, s), x in v.space_time_matrix.items():
                    if isinstance(x, int):
                        continue
                    bump("deadline_cells_inspected")
                    late = [m for m in v.task.tasks if enforced(m) and t + _rt(s) > m.deadline.time]
                    if late:
                        report("model_batch_cell_past_member_deadline",
                               f"{kind}: batch {[m.unique_name for m in v.task.tasks]}: placement variable at t={t} runtime {_rt(s)} "
                               f"completes after the deadline {late[0].deadline.time} of its member {late[0].unique_name}")
                        break
                continue
            if not enforced(v.task):
                continue
            bump("deadline_tasks_probed")
            dl = v.task.deadline.time
            for (w, t, s), x in v.space_time_matrix.items():
                if isinstance(x, int):
                    continue
                bump("deadline_cells_inspected")
                if t + _rt(s) > dl:
                    report("model_cell_past_deadline", f"{kind}: {v.task.unique_name}: placement variable at t={t} runtime {_rt(s)} completes after the deadline {dl}")
                    break
        return
    if kind != "ilp":
        return
    import gurobipy as gp
    from gurobipy import GRB
    for name, v in tv.items():
        if v.previously_placed or hasattr(v.task, "tasks") or not enforced(v.task):
            continue
        if not any(isinstance(x, gp.Var) for x in v.placed_on_workers):
            continue
        bump("deadline_tasks_probed")
        m2 = _gcopy(opt)
        m2.addConstr(gp.quicksum(_gv(m2, x) for x in v.placed_on_workers) == 1)
        fin = _gv(m2, v.start_time) + gp.quicksum(_rt(s) * _gv(m2, x) for (w, s), x in v._placed_on_worker_with_strategy.items())
        # bound the start so that the maximisation cannot be unbounded when nothing constrains it
        m2.addConstr(_gv(m2, v.start_time) <= v.task.deadline.time + 1000)
        m2.setObjective(fin, GRB.MAXIMIZE)
        st = _gsolve(m2, lambda: bump("probe_tooling_limit"))
        bump("probes")
        if st == GRB.OPTIMAL:
            bump("deadline_probe_feasible")
            if m2.ObjVal > v.task.deadline.time + 1e-6:
                report("model_completion_past_deadline",
                       f"ilp: {v.task.unique_name}: feasible point completing at {m2.ObjVal:g} > deadline {v.task.deadline.time}")
