"""Exhaustive reference search for tiny planning instances (C14).

An instance is plain data:
  now, enforce (bool), rtg (bool), workers [{"id", "cap": {name: q}}],
  tasks [{"name", "graph", "release", "deadline", "strategies": [(req{name:q}, runtime)],
          "parents": [task indices], "children": [...], "state": "offered" | "running" | "scheduled",
          "worker": index (running/scheduled), "sidx": strategy index (running/scheduled),
          "start": planned start (scheduled)}]

Two oracles, both written from the planners' own documented decision space (DESIGN C14):

* ILP (goal max_goodput): maximum number of task graphs whose reward tasks are all
  placed, over all assignments allowed by the planner's time convention (integer start
  >= max(now+1, release), a resource is busy on the closed interval [s, s+r], a child
  starts at >= parent start + runtime + 1) with exact instant-wise capacity.
* TetriSched (Gurobi / CPLEX): is there an offered, unplaced task that can be added to
  the returned plan at some grid slot / worker / strategy without breaking capacity,
  release, precedence or deadline limits.
"""
import itertools


def fits_empty(req, cap):
    return all(cap.get(n, 0) >= q for n, q in req.items())


# ---------------------------------------------------------------------------
# ILP semantics
# ---------------------------------------------------------------------------
def ilp_feasible(inst, assign, dependent):
    """assign: {task index: (worker index, strategy index, start)} for every placed task
    (running tasks included with start = now).  Busy intervals are closed [s, s + r]; at
    every instant the summed demand of the tasks busy on a worker must be within capacity.
    Usage only rises at start instants, so those are the instants to check."""
    T = inst["tasks"]
    W = inst["workers"]
    starts = sorted({st for (_, _, st) in assign.values()})
    for w, wk in enumerate(W):
        on = [(i, s, st) for i, (w2, s, st) in assign.items() if w2 == w]
        for tau in starts:
            use = {}
            for i, s, st in on:
                req, r = T[i]["strategies"][s]
                if T[i]["state"] == "running":
                    r = T[i].get("remaining", r)
                if st <= tau <= st + r:
                    for n, q in req.items():
                        use[n] = use.get(n, 0) + q
            for n, q in use.items():
                if q > wk["cap"].get(n, 0):
                    return False
    return True


def ilp_optimum(inst, horizon):
    """returns (best goodput, witness assignment).  Search: subsets of graphs in decreasing
    size, for each a DFS over the placements of the tasks that must be placed."""
    T = inst["tasks"]
    W = inst["workers"]
    now = inst["now"]
    n = len(T)
    invars = [t["state"] in ("offered", "running", "scheduled") for t in T]
    # dependency (are_dependent): reachability either way
    reach = {i: set() for i in range(n)}
    for i in range(n):
        st = list(T[i]["children"])
        while st:
            c = st.pop()
            if c not in reach[i]:
                reach[i].add(c)
                st.extend(T[c]["children"])
    dependent = {frozenset((i, j)) for i in range(n) for j in reach[i]}
    graphs = sorted({t["graph"] for t in T if t["state"] != "done"})
    reward = {}
    for g in graphs:
        idxs = [i for i, t in enumerate(T) if t["graph"] == g and invars[i]]
        if inst["rtg"]:
            rt = [i for i in idxs if not T[i]["children"]]
        else:
            rt = [i for i in idxs if not any(invars[c] for c in T[i]["children"])]
        reward[g] = rt
    fixed = {i: (t["worker"], t["sidx"], now) for i, t in enumerate(T) if t["state"] == "running"}
    must_sched = [i for i, t in enumerate(T) if t["state"] == "scheduled"]  # not retracting: must stay placed

    def options(i):
        t = T[i]
        lb = max(now + 1, t["release"])
        out = []
        for w, wk in enumerate(W):
            for s, (req, r) in enumerate(t["strategies"]):
                if not fits_empty(req, wk["cap"]):
                    continue
                hi = lb + horizon
                if inst["enforce"] and t.get("enforced", True):
                    hi = min(hi, t["deadline"] - r)
                for st in range(lb, hi + 1):
                    out.append((w, s, st))
        return out
    opts = {i: options(i) for i in range(n) if T[i]["state"] in ("offered", "scheduled")}

    def closure(need):
        need = set(need)
        changed = True
        while changed:
            changed = False
            for i in list(need):
                for p in T[i]["parents"]:
                    if invars[p] and p not in need and T[p]["state"] != "running":
                        need.add(p)
                        changed = True
        return need

    def placeable(i):
        # the formulation places a task only if the number of its parents among the variables
        # equals the number of its parents in the graph (or none of them is among the variables)
        ps = T[i]["parents"]
        inv = [p for p in ps if invars[p]]
        return len(inv) == 0 or len(inv) == len(ps)

    def search(need):
        order = sorted(need, key=lambda i: (len(opts[i]), i))
        assign = dict(fixed)

        def rec(k):
            if k == len(order):
                return ilp_feasible(inst, assign, dependent)
            i = order[k]
            for (w, s, st) in opts[i]:
                ok = True
                for p in T[i]["parents"]:
                    if p in assign and p not in fixed:
                        pw, ps_, pst = assign[p]
                        if st < pst + T[p]["strategies"][ps_][1] + 1:
                            ok = False
                            break
                    elif p in fixed:
                        if st < now + T[p]["strategies"][fixed[p][1]][1] + 1:
                            ok = False
                            break
                if not ok:
                    continue
                for c in T[i]["children"]:
                    if c in assign and c not in fixed:
                        if assign[c][2] < st + T[i]["strategies"][s][1] + 1:
                            ok = False
                            break
                if not ok:
                    continue
                assign[i] = (w, s, st)
                if ilp_feasible(inst, assign, dependent) and rec(k + 1):
                    return True
                del assign[i]
            return False
        return dict(assign) if rec(0) else None

    for k in range(len(graphs), -1, -1):
        for sub in itertools.combinations(graphs, k):
            need = set(must_sched)
            for g in sub:
                need.update(i for i in reward[g] if T[i]["state"] != "running")
            need = closure(need)
            if any(not placeable(i) for i in need) or any(i not in opts or not opts[i] for i in need):
                continue
            a = search(need)
            if a is not None:
                return k, a
    return 0, dict(fixed)


def ilp_goodput_of(inst, placed):
    """goodput of a returned decision: placed = set of task indices placed (incl. running)."""
    T = inst["tasks"]
    invars = [t["state"] in ("offered", "running", "scheduled") for t in T]
    cnt = 0
    for g in sorted({t["graph"] for t in T if t["state"] != "done"}):
        idxs = [i for i, t in enumerate(T) if t["graph"] == g and invars[i]]
        rt = [i for i in idxs if not T[i]["children"]] if inst["rtg"] else [i for i in idxs if not any(invars[c] for c in T[i]["children"])]
        if rt and all(i in placed for i in rt):
            cnt += 1
    return cnt


# ---------------------------------------------------------------------------
# TetriSched semantics
# ---------------------------------------------------------------------------
def tetrisched_addable(inst, plan, grid, dag_aware):
    """plan: {task index: (worker, sidx, start)} incl. running tasks (start = now).
    grid: list of slot instants.  Returns a witness (task, worker, sidx, start) that can be added, or None."""
    T, W, now = inst["tasks"], inst["workers"], inst["now"]
    invars = [t["state"] in ("offered", "running", "scheduled") for t in T]

    def usage_ok(extra):
        allp = dict(plan)
        allp[extra[0]] = extra[1:]
        for w, wk in enumerate(W):
            for tt in grid:
                use = {}
                for i, (w2, s2, st2) in allp.items():
                    if w2 != w:
                        continue
                    req, r = T[i]["strategies"][s2]
                    if T[i]["state"] == "running":
                        r = T[i].get("remaining", r)
                    if st2 <= tt < st2 + r:
                        for n, q in req.items():
                            use[n] = use.get(n, 0) + q
                for n, q in use.items():
                    if q > wk["cap"].get(n, 0):
                        return False
        return True

    for i, t in enumerate(T):
        if t["state"] != "offered" or i in plan:
            continue
        if inst["rtg"] and t["children"]:
            continue  # only reward tasks (sinks) are forced into the plan by the objective
        if dag_aware:
            ps = t["parents"]
            inv = [p for p in ps if invars[p]]
            if inv and (len(inv) != len(ps) or any(p not in plan for p in inv)):
                continue
        for w, wk in enumerate(W):
            for s, (req, r) in enumerate(t["strategies"]):
                if not fits_empty(req, wk["cap"]):
                    continue
                for st in grid:
                    if st < t["release"]:
                        continue
                    if inst["enforce"] and st + r > t["deadline"]:
                        continue
                    if dag_aware:
                        ok = True
                        for p in t["parents"]:
                            if p in plan:
                                pw, ps_, pst = plan[p]
                                if T[p]["state"] == "running":
                                    lim = pst + T[p]["remaining"] + 1
                                else:
                                    lim = pst + max(r2 for _, r2 in T[p]["strategies"]) + 1
                                if st < lim:
                                    ok = False
                        for c in t["children"]:
                            if c in plan and plan[c][2] < st + max(r2 for _, r2 in t["strategies"]) + 1:
                                ok = False
                        if not ok:
                            continue
                    if usage_ok((i, w, s, st)):
                        return (i, w, s, st)
    return None
