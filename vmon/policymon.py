"""C10: wrapper around every bundled policy's schedule().  Used inside e2e runs
(live calls) and by the direct-drive harnesses.

`check_decision` is written against plain data extracted from the repo objects
(ids, names, integers) plus the harness' own shadow cluster.
"""
import itertools


def policy_classes():
    import schedulers as S
    names = ["EDFScheduler", "FIFOScheduler", "LSFScheduler", "ILPScheduler",
             "TetriSchedGurobiScheduler", "TetriSchedCPLEXScheduler", "ClockworkScheduler",
             "Z3Scheduler", "BranchPredictionScheduler"]
    return [getattr(S, n) for n in names if hasattr(S, n)]


ANSWER_ALL = {"EDFScheduler", "FIFOScheduler", "LSFScheduler", "ILPScheduler",
              "TetriSchedGurobiScheduler", "TetriSchedCPLEXScheduler", "Z3Scheduler",
              "BranchPredictionScheduler"}


def demand_of(strategy):
    d = {}
    for res, q in strategy.resources.resources:
        d[res.name] = d.get(res.name, 0) + q
    return d


def cluster_digest(worker_pools):
    import workload as wl
    out = []
    for pool in worker_pools.worker_pools:
        for w in pool.workers:
            names = sorted({res.name for res, _ in w.resources.resources})
            av = tuple((n, w.resources.get_available_quantity(wl.Resource(name=n, _id="any"))) for n in names)
            out.append((pool.id, w.id, av, tuple(sorted(t.id for t in w.get_placed_tasks())),
                        tuple(sorted(p.id for p in w.get_available_profiles())),
                        tuple(sorted(p.id for p in w.get_pending_profiles())),
                        tuple(sorted((id(b), len(m)) for b, m in w._placed_batches.items()))))
        out.append((pool.id, tuple(sorted(t.id for t in pool.get_placed_tasks()))))
    return tuple(out)


def tasks_digest(workload):
    out = []
    for gname, tg in workload.task_graphs.items():
        for t in tg.get_nodes():
            rt = t._remaining_time
            out.append((t.id, t._state.name, None if rt is None else rt.time,
                        t._start_time.time if t._start_time is not None else None,
                        t._release_time.time, t._deadline.time, id(t._scheduler_placement),
                        t._worker_pool_id, t._probability))
    return tuple(out)


def exists_assignment(items, workers):
    """items: list of dicts {start, end, demand, worker (id or None), pool}.
    workers: {worker_id: {"pool": pool_id, "cap": {name: q}}}.
    Returns True iff tasks can be assigned to workers (respecting fixed workers and
    pools) such that at every instant the summed demand on each worker is within
    capacity.  Intervals are half-open [start, end).  Zero-length intervals occupy
    nothing.  Exact backtracking in start order."""
    items = sorted([i for i in items if i["end"] > i["start"]],
                   key=lambda i: (i["worker"] is None, i["start"], i["end"]))
    assigned = {w: [] for w in workers}

    def fits(w, it):
        cap = workers[w]["cap"]
        on = assigned[w]
        points = [it["start"]] + [o["start"] for o in on if it["start"] < o["start"] < it["end"]]
        for pt in points:
            for n, q in it["demand"].items():
                used = sum(o["demand"].get(n, 0) for o in on if o["start"] <= pt < o["end"])
                if used + q > cap.get(n, 0):
                    return False
        return True

    def rec(k):
        if k == len(items):
            return True
        it = items[k]
        if it["worker"] is not None:
            w = it["worker"]
            if w not in workers or not fits(w, it):
                return False
            assigned[w].append(it)
            ok = rec(k + 1)
            if not ok:
                assigned[w].pop()
            return ok
        cands = [w for w, d in workers.items() if d["pool"] == it["pool"]]
        seen_state = set()
        for w in cands:
            # all fixed-worker items are already placed and the remaining ones start no
            # earlier than this one: workers of one pool with equal capacity and equal
            # load from here on are interchangeable
            sig = (tuple(sorted(workers[w]["cap"].items())),
                   tuple(sorted((max(o["start"], it["start"]), o["end"], tuple(sorted(o["demand"].items())))
                                for o in assigned[w] if o["end"] > it["start"])))
            if sig in seen_state:
                continue
            seen_state.add(sig)
            if fits(w, it):
                assigned[w].append(it)
                if rec(k + 1):
                    return True
                assigned[w].pop()
        return False

    return rec(0)


def check_decision(call, placements, report):
    """call: dict with
        t, policy, offered (list of task objs or None), states {id(task): state name at call},
        workers {wid: {pool, cap}}, pools {pool_id: [wids]},
        running [ {task, worker, end, demand} ], scheduled {id(task): {pool, worker, start, end, demand}}
        release_known {id(task): int or None}
       placements: iterable of repo Placement objects
       report(kind, detail)
    """
    import workload as wl
    PT = wl.Placement.PlacementType
    now = call["t"]
    per_task = {}
    task_pls = []
    for p in placements:
        if p.placement_type in (PT.PLACE_TASK, PT.CANCEL_TASK):
            per_task.setdefault(id(p.task), []).append(p)
            task_pls.append(p)
    offered_ids = None if call.get("offered") is None else {id(t) for t in call["offered"]}
    for tid, ps in per_task.items():
        t = ps[0].task
        if len(ps) > 1:
            report("duplicate_decision", f"{t.unique_name}: {len(ps)} decisions in one answer")
        st = call["states"].get(tid)
        if st in ("RUNNING", "COMPLETED", "CANCELLED", "EVICTED") and not call.get("preemptive"):
            if not (st == "CANCELLED" and all(not p.is_placed() for p in ps)):
                report("decision_for_started_task", f"{t.unique_name} in state {st} received {[str(p.placement_type) for p in ps]}")
        if offered_ids is not None and tid not in offered_ids and st != "SCHEDULED" and not call.get("preemptive"):
            report("decision_for_unoffered_task", f"{t.unique_name} (state {st}) was not offered and not previously scheduled")
    if call["policy"] in ANSWER_ALL and offered_ids is not None:
        for t in call["offered"]:
            if call["states"].get(id(t)) in ("SCHEDULED", "RUNNING"):
                continue
            if id(t) not in per_task:
                report("offered_task_unanswered", f"{t.unique_name} (state {call['states'].get(id(t))}) offered but no decision returned")
    items = []
    redecided = set(per_task)
    for p in task_pls:
        if p.placement_type != PT.PLACE_TASK or not p.is_placed():
            continue
        t = p.task
        if p.worker_pool_id not in call["pools"]:
            report("unknown_pool", f"{t.unique_name} -> pool {p.worker_pool_id}")
            continue
        if p.worker_id is not None and p.worker_id not in call["pools"][p.worker_pool_id]:
            report("unknown_worker", f"{t.unique_name} -> worker {p.worker_id} not in pool {p.worker_pool_id}")
            continue
        st = p.execution_strategy
        if p.placement_time is None:
            report("placement_without_time", f"{t.unique_name}")
            continue
        pt = p.placement_time.time
        if pt < now:
            report("placement_in_past", f"{t.unique_name} at {pt} < now {now}")
        rel = call["release_known"].get(id(t))
        if rel is not None and rel >= 0 and pt < rel:
            report("placement_before_release", f"{t.unique_name} at {pt} < release {rel}")
        if st is None:
            call["no_strategy"] = call.get("no_strategy", 0) + 1
            continue
        ok = any(st is s for s in t.available_execution_strategies)
        if not ok and isinstance(st, wl.BatchStrategy):
            ok = any(s.batch_size == st.batch_size and s.runtime == st.runtime and demand_of(s) == demand_of(st)
                     for s in t.available_execution_strategies)
        if not ok:
            ok = any(s.batch_size == st.batch_size and s.runtime == st.runtime and demand_of(s) == demand_of(st)
                     for s in t.available_execution_strategies)
            if ok:
                call["strategy_by_value"] = call.get("strategy_by_value", 0) + 1
        if not ok:
            report("foreign_strategy", f"{t.unique_name}: strategy {st} is not one of the task's")
            continue
        items.append({"task": t.unique_name, "start": pt, "end": pt + st.runtime.time, "demand": demand_of(st),
                      "worker": p.worker_id, "pool": p.worker_pool_id,
                      "batch": id(st) if isinstance(st, wl.BatchStrategy) else None})
    # batches count once
    merged, seenb = [], set()
    for it in items:
        if it["batch"] is not None:
            if it["batch"] in seenb:
                continue
            seenb.add(it["batch"])
        merged.append(it)
    fixed = []
    for r in call["running"]:
        fixed.append({"task": r["task"], "start": now, "end": max(r["end"], now), "demand": r["demand"],
                      "worker": r["worker"], "pool": r.get("pool"), "running": True})
    for tid, s in call["scheduled"].items():
        if tid in redecided:
            continue
        fixed.append({"task": s["task"], "start": s["start"], "end": s["end"], "demand": s["demand"],
                      "worker": s["worker"], "pool": s["pool"]})
    call["n_intervals"] = len(merged) + len(fixed)
    if merged:
        # residents fixed by the harness itself must be feasible alone, otherwise the
        # input state is already over capacity and the policy is not to blame
        if not exists_assignment(fixed, call["workers"]):
            call["input_infeasible"] = True
        elif not exists_assignment(fixed + merged, call["workers"]):
            running_only = [f for f in fixed if f.get("running")]
            kind = "joint_capacity"
            if exists_assignment(running_only + merged, call["workers"]):
                # only a previously scheduled, not yet started task is in the way
                kind = "joint_capacity_vs_pending_scheduled"
            # facts for the known-findings classifier (mechanism, not case): which tasks collide, and whether a previously
            # scheduled task in the way is one whose planned start has already passed (its placement is being retried)
            call["joint_facts"] = {
                "colliding": [i["task"] for i in merged],
                "deferred_pending": any(s.get("planned") is not None and s["planned"] < now
                                        for tid, s in call["scheduled"].items() if tid not in redecided)}
            report(kind, f"placements {[(i['task'], i['start'], i['end'], i['demand'], i['worker']) for i in merged]} "
                                     f"with fixed {[(i['task'], i['start'], i['end'], i['demand'], i['worker']) for i in fixed]} "
                                     f"exceed capacity {call['workers']}")
