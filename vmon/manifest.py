"""Generates /verif/MANIFEST.json from one table (run: /venv/bin/python -m vmon.manifest)."""
import json
import os

from . import common

BASELINE_CMD = ("cd /repo && /venv/bin/python -m pytest -ra -q -p no:cacheprovider --timeout=900 "
                "--continue-on-collection-errors")

E2E_NOTE = ("Trusted base: the harness (vmon/e2e.py hooks, shadow cluster, generators), CPython, the solver "
            "libraries. Decided only for the generated worlds (small clusters/DAGs, bundled policies); "
            "solver-licence size limits make some planner worlds tooling-inconclusive (counted in evidence).")

# id -> (technique, level text, design_ref, level_note)
CLAIMED = {
    "C01": ("online invariant monitor: independent shadow occupancy model re-checked after every mutation of a live worker, during full simulations and during direct-drive runs under a hostile (chaos) policy that also answers with batches and re-loads resident profiles; every applied profile load compared with the decided loading strategy",
            "held on the K generated worlds run end to end with the shadow-cluster monitor attached; every live place/remove/load/evict and every utilization row was compared with an occupancy model that shares no code with the ledger",
            "DESIGN.md 4/C01", E2E_NOTE),
    "C02": ("online per-task ordering automaton on Task.release/start/finish hooks during full simulations and direct-drive chaos-policy runs (multi-timestamp graphs, children with their own release times, policies that take simulated time to answer so that decisions arrive stale)",
            "held on the K generated worlds: every observed start was checked against the harness' own record of releases and parent completions (description graph)",
            "DESIGN.md 4/C02", E2E_NOTE),
    "C03": ("online trace monitor: clock, event-queue order at every pop, completion-time automaton against the decision recorded at the policy boundary (the Placements schedule() returned), first-placement-attempt oracle with the shadow fit test; full simulations and direct-drive chaos-policy runs",
            "held on the K generated worlds incl. same-microsecond event groups; completion = start + strategy runtime (variance window), monotone clock, queue pops minimal under the documented key, start at the chosen time when ready and fitting",
            "DESIGN.md 4/C03", E2E_NOTE),
    "C05": ("bounded-progress watchdog (logical, not wall-clock) + end-state checker over full simulations",
            "liveness restated as bounded progress: every generated run reached SIMULATOR_END by loop_timeout without exceeding the no-progress bounds; feasible work-conserving worlds finished all work",
            "DESIGN.md 4/C05", E2E_NOTE + " 'Eventually' is only observable as N steps without progress."),
    "C06": ("online state-machine monitor on every Task mutator (legal transitions, unschedule restores the pre-scheduling state) + state scan after every handled event + offline closure check of cancellations; full simulations and direct-drive runs under a chaos policy that re-plans, retracts and cancels; plus the repository's own pinned tests run with this property's context-free monitors attached (vmon/suitemon.py)",
            "held on the K generated worlds with cancellation (deadline enforcement, drop_skipped_tasks, conditionals)",
            "DESIGN.md 4/C06", E2E_NOTE),
    "C07": ("hook on TaskGraph.notify_task_completion (return value, probability snapshot) + offline branch census per conditional block",
            "held on the observed conditional completions over generated conditional graphs (nested, several per graph, DAG-shaped branches) and random draws",
            "DESIGN.md 4/C07", E2E_NOTE),
    "C08": ("offline trace checker: every CSV row and the end-of-run summary compared column by column with the harness' event log; CSVReader round trip; TASK_RELEASE rows of direct-drive runs (profiles of different graphs share names) against the harness' description",
            "held on the K generated traces, apart from the listed known findings",
            "DESIGN.md 4/C08", E2E_NOTE),
    "C04": ("reference-model monitor over direct-drive operation histories (random + exhaustive short sequences) comparing all public getters after every step (copies are mutated and drained like the original); idle-capacity hook in full simulations; plus the repository's own pinned tests run with this property's context-free monitors attached (vmon/suitemon.py)",
            "held on the K histories executed against Resources/Worker/WorkerPool and the e2e idle-worker checks; the 9-op/length<=4 sweep is complete, the rest sampled",
            "DESIGN.md 4/C04", "Trusted base: the instance-level occupancy model in vmon/checks/c04_ledger.py; small vectors (<=3 names x <=3 instances x quantity<=3)."),
    "C16": ("differential monitor: EventTime operators vs integer microseconds; EventQueue histories vs a reference sorted list; every pop of the simulator's own queue in real runs of retracting planners; plus the repository's own pinned tests run with this property's context-free monitors attached (vmon/suitemon.py)",
            "held on the sampled value triples over all 9 unit pairs (|us| < 2^53, edge values) and the queue histories incl. in-place retimes",
            "DESIGN.md 4/C16", "Trusted base: Python integers; the documented ordering key (time, type value, task unique name)."),
    "C17": ("differential monitor: Graph/TaskGraph/JobGraph routines vs brute force on enumerated and random DAGs, cyclic graphs, and graphs grown through their public mutators with every routine queried between mutations; plus the repository's own pinned tests run with this property's context-free monitors attached (vmon/suitemon.py)",
            "complete for all DAGs on <=5 nodes (quick) / <=6 nodes (thorough) in several insertion orders, sampled beyond",
            "DESIGN.md 4/C17", "Trusted base: the brute-force reference in vmon/checks/c17_graphs.py."),
    "C09": ("differential trace monitor: two fresh `python main.py` processes per world with different PYTHONHASHSEED, CSVs compared row by row after masking wall-clock fields; greedy, Clockwork, planner and batching-planner worlds",
            "held on the K process pairs covering every source of randomness (deadline variance, Poisson/Gamma arrivals, conditionals, runtime variance) under deterministic policies",
            "DESIGN.md 4/C09", "One machine: hash seeds and fresh processes stand in for 'other processes and machines'. Masked: SCHEDULER_FINISHED wall-clock column, output-path flags."),
    "C13": ("oracle monitor on direct schedule() calls: independent fit check on single-worker pools with priority keys recomputed by the harness",
            "held on the K generated invocations of EDF/FIFO/LSF with unplaced tasks and many ties",
            "DESIGN.md 4/C13", "Trusted base: the fit oracle and priority keys in vmon/checks/c13_priority.py; single-worker pools only."),
    "C19": ("differential monitor: loader output vs the description kept by the generator (YAML and JSON, with and without absl flags); closed-loop in-flight census from observed events of full simulations",
            "held on the K generated descriptions over all five release policies, override flags and replication, and on the closed-loop runs",
            "DESIGN.md 4/C19", "Trusted base: the generator's description. Deadline base not judged when zero-weight jobs make the critical path's SLO sum ambiguous."),
    "C10": ("wrapper monitor on every policy's schedule(): decision-shape checks, exact interval-packing feasibility against the shadow cluster, before/after digests of live cluster and tasks; live calls in full simulations plus shadow invocations of the other policies on the same states, in full simulations (incl. the batching modes of ILP / TetriSched-CPLEX on request bursts) and in direct-drive chaos-policy runs",
            "held on the K live and shadow schedule() calls of all eight policies on reachable states, apart from the listed known findings",
            "DESIGN.md 4/C10", E2E_NOTE + " Joint capacity is judged per resource name with the weakest reading of a running task's expected end."),
    "C18": ("online monitor on every frontier / completion-notification / releasable call in full simulations, probe calls on a grid of lookaheads, switches and branch policies at every scheduler start, and a direct random walker over task-graph states; plus the repository's own pinned tests run with this property's context-free monitors attached (vmon/suitemon.py)",
            "held on the K observed and probed frontier calls and walker steps, apart from the listed known finding",
            "DESIGN.md 4/C18", E2E_NOTE),
    "C11": ("output monitor on every ILP / TetriSched-Gurobi / Z3 decision plus adversarial re-solves on the captured solver model (feasibility of 'child placed, parent not'; minimise child start - parent finish), live and shadow calls in full simulations, direct Z3 calls",
            "per captured model the probes are exact (gap 0): no feasible point of that model violates the order; held on the K models captured and the decisions returned, apart from the listed Z3 finding",
            "DESIGN.md 4/C11", E2E_NOTE + " Probes need a solver licence large enough for the model copy; failures are counted as tooling-inconclusive."),
    "C12": ("output monitor on every enforcing policy's decision (admission, completion <= deadline), model probes (ILP: maximise completion subject to placed, gap 0; TetriSched: inspection of every placement variable, for batches against every member's deadline), completion times of exact-runtime planner runs",
            "held on the K enforcing calls incl. hopeless and exactly-tight deadlines, the probed models and the completed tasks, apart from the listed TetriSched-CPLEX finding",
            "DESIGN.md 4/C12", E2E_NOTE),
    "C15": ("output monitor on every ClockworkScheduler decision inside full simulations of model-serving worlds (batch membership, size, model loaded, fit, earliest deadline, placed-once, admission)",
            "held on the K invocations with persisting queues, pre-loaded and policy-loaded models, both goals",
            "DESIGN.md 4/C15", E2E_NOTE),
    "C14": ("differential monitor: real planners vs an exhaustive reference search (vmon/brute.py) on tiny generated planning instances (direct schedule() calls)",
            "held on the K enumerable instances (<=4 offered tasks, <=2 workers, <=2 strategies, deadlines within 10us, grid 1-3) for ILP goodput optimality and TetriSched plan maximality",
            "DESIGN.md 4/C14", "Trusted base: the reference search and its statement of the planners' time conventions (see evidence assumptions). Solver gap cannot hide one task/graph at these sizes (asserted per instance)."),
    "C20": ("sanitizer build (ASan + UBSan, g++) of the real C++ library with a stand-alone driver; validity oracle over populateResults() for many solutions per generated model (real + hostile objectives), model optimum vs brute-force optimum of the expression",
            "held on the K generated STRL DAGs x solutions judged, in six classes of discretisation / pass configuration, apart from the listed known findings; no sanitizer report",
            "DESIGN.md 4/C20", "Trusted base: the reference semantics in vmon/strl/oracle.py, gurobipy as the MILP solver, the sequential TBB shim (no parallel parse, so data races are out of reach). Small trees only (<= ~8 placement options)."),
}

_WIP = "check not built yet in this session; planned with the same technique, see DESIGN.md section 4"
NOT_YET = {}


def build():
    checks = []
    for pid in sorted(CLAIMED):
        tech, text, ref, note = CLAIMED[pid]
        checks.append({
            "property_id": pid,
            "quick_cmd": f"./check {pid} --tier quick",
            "thorough_cmd": f"./check {pid} --tier thorough",
            "evidence_file": f"evidence/{pid}.json",
            "replay_cmd_template": f"./check {pid} --replay {{path}}",
            "engine": "vmon",
            "level_claimed": {"category": "exploration", "text": text, "design_ref": ref},
            "level_note": note,
            "technique": tech,
        })
    import subprocess
    try:
        fixes = subprocess.run(["git", "-C", "/repo", "log", "--format=%h %s", "--grep=^fix:"],
                               capture_output=True, text=True).stdout.strip().splitlines()
    except Exception:
        fixes = []
    m = {
        "version": 1,
        "setup_cmd": "/venv/bin/python -m vmon.selftest",
        "hooks": {
            "guard": "ERDOS_SIM_VERIF",
            "enable": "no source hooks: monitors are class-level wrappers installed by the harness at run time "
                      "(vmon/common.py wrap); the guard name is reserved and unused",
            "baseline_off_cmd": BASELINE_CMD,
            "source_commits": [],
            "add_only": True,
        },
        "engines": [{"name": "vmon", "path": "vmon/", "serves_properties": sorted(CLAIMED),
                     "kind_free_text": "runtime monitors (class-level hooks, shadow models, offline trace checkers) "
                                       "driven by seeded generated workloads; /venv/bin/python"}],
        "checks": checks,
        "not_applicable": [{"property_id": p, "reason": r} for p, r in sorted(NOT_YET.items())],
        "notes": "Repository repairs (separate unguarded 'fix:' commits in /repo): " + "; ".join(fixes)
                 + ". Known findings: known_findings.json. Exit codes of ./check: 0 held, 1 VIOLATION, "
                   "2 INCONCLUSIVE (deciding monitor not reached), 3 harness error.",
    }
    return m


if __name__ == "__main__":
    m = build()
    with open(os.path.join(common.VERIF, "MANIFEST.json"), "w") as f:
        json.dump(m, f, indent=1)
    print("wrote MANIFEST.json with", len(m["checks"]), "checks,", len(m["not_applicable"]), "not_applicable")
