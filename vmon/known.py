"""Known findings: genuine defects recorded rather than repaired, keyed by mechanism.

known_findings.json (committed, never written at run time):
  {"findings": [{"id", "property", "kinds": [violation kinds], "detail_regex": optional,
                 "what": text}],
   "fixed":    ["fixed: property=<id> <commit> <what failed>", ...]}
A finding matches a violation when property and kind match and, if given,
detail_regex matches the violation detail and `requires` keys match the
violation's `ctx` facts.  Fixed entries suppress nothing.
"""
import json
import os
import re

from . import common

PATH = os.path.join(common.VERIF, "known_findings.json")


def load():
    if not os.path.exists(PATH):
        return {"findings": [], "fixed": []}
    with open(PATH) as f:
        return json.load(f)


def classify(kf, pid, v):
    for f in kf.get("findings", []):
        if f["property"] != pid:
            continue
        if v["kind"] not in f["kinds"]:
            continue
        if f.get("detail_regex") and not re.search(f["detail_regex"], v.get("detail", "")):
            continue
        req = f.get("requires", {})
        facts = v.get("facts", {})
        if any(facts.get(k) != val for k, val in req.items()):
            continue
        return f["id"]
    return None


def describe(kf, fid):
    for f in kf.get("findings", []):
        if f["id"] == fid:
            return f["what"]
    return ""
