"""The repository's own test suite as a workload: a pytest plugin (`-p vmon.suitemon`) that attaches
context-free monitors to the repository's classes while the pinned tests run, plus the runner
that the checks call.

The tests are hand-written scenarios (preloaded clusters, hand-made graphs, corner cases of the
simulator) that the generators of the other workloads do not produce; the monitors judge every
operation the tests perform, not only what the tests assert.  Monitors only record: they never
raise into a test and never alter arguments or results, so the suite's own outcome is unchanged
(the runner also reports it and is inconclusive when the suite itself does not pass).

    C03  the simulated clock of a Simulator never moves backwards
    C04  Resources / Worker ledger: available + allocated == total per resource instance, a refused
         request changes nothing, a shallow copy has the original's occupancy
    C06  Task lifecycle: every state change made by a Task method is a legal move
    C16  EventTime operators agree with the microsecond integers; EventQueue.next() returns a minimum
    C17  topological_sort / breadth_first / depth_first agree with the edge set
    C18  the frontier never contains a completed or cancelled task, nor (without retraction or
         preemption) a scheduled or running one
"""
import json
import os
import subprocess
import sys
import time

OUT_ENV = "VERIF_SUITEMON_OUT"
_MAX_PER_KIND = 6

STATE = {"viol": [], "counters": {}, "test": None, "per_kind": {}, "busy": False}


def _count(k, n=1):
    c = STATE["counters"]
    c[k] = c.get(k, 0) + n


def _violate(pid, kind, detail):
    n = STATE["per_kind"].get((pid, kind), 0)
    STATE["per_kind"][(pid, kind)] = n + 1
    if n < _MAX_PER_KIND:
        STATE["viol"].append({"pid": pid, "kind": kind, "detail": f"[suite: {STATE['test']}] {detail}"[:900],
                              "test": STATE["test"]})


def _guarded(fn):
    """monitor code never runs re-entrantly (its own calls into the wrapped classes are not judged)
    and never lets its own failure reach the test: a failing monitor is counted as a harness error"""
    def g(*a, **k):
        if STATE["busy"]:
            return None
        STATE["busy"] = True
        try:
            return fn(*a, **k)
        except Exception as e:  # noqa: BLE001
            _count("monitor_errors")
            if len(STATE.setdefault("errors", [])) < 5:
                import traceback
                STATE["errors"].append(f"{STATE['test']}: {type(e).__name__}: {e}\n{traceback.format_exc()[-600:]}")
            return None
        finally:
            STATE["busy"] = False
    return g


def _wrap(owner, attr, pre=None, post=None, on_exc=None):
    """pre(*a, **k) -> token; post(token, ret, *a, **k); on_exc(token, exc, *a, **k)"""
    orig = owner.__dict__[attr]
    pre_g = _guarded(pre) if pre else None
    post_g = _guarded(post) if post else None
    exc_g = _guarded(on_exc) if on_exc else None

    def wrapper(*a, **k):
        tok = pre_g(*a, **k) if pre_g and not STATE["busy"] else None
        judged = not STATE["busy"]
        try:
            ret = orig(*a, **k)
        except BaseException as e:  # noqa: BLE001
            if exc_g and judged:
                exc_g(tok, e, *a, **k)
            raise
        if post_g and judged:
            post_g(tok, ret, *a, **k)
        return ret
    wrapper.__name__ = getattr(orig, "__name__", attr)
    wrapper.__doc__ = getattr(orig, "__doc__", None)
    wrapper.__wrapped__ = orig
    setattr(owner, attr, wrapper)


# ------------------------------------------------------------------------------------------------
# C04 ledger
# ------------------------------------------------------------------------------------------------
def _ledger(res):
    """(available, allocated, total) per resource instance (name, id), read from the object's own tables"""
    avail, total, alloc = {}, {}, {}
    for r, q in res._resource_vector.items():
        avail[(r.name, r.id)] = avail.get((r.name, r.id), 0) + q
    for r, q in res._Resources__total_resources.items():
        total[(r.name, r.id)] = total.get((r.name, r.id), 0) + q
    for comp, lst in res._current_allocations.items():
        for r, q in lst:
            alloc[(r.name, r.id)] = alloc.get((r.name, r.id), 0) + q
    return avail, alloc, total


def _snapshot(res):
    avail, alloc, total = _ledger(res)
    per = sorted((id(c), tuple(sorted(((r.name, r.id), q) for r, q in lst))) for c, lst in res._current_allocations.items() if lst)
    return (tuple(sorted(avail.items())), tuple(sorted(total.items())), tuple(per))


def _judge_ledger(res, where):
    avail, alloc, total = _ledger(res)
    _count("c04_ledger_states_judged")
    for key in set(avail) | set(alloc) | set(total):
        a, b, t = avail.get(key, 0), alloc.get(key, 0), total.get(key, 0)
        if a < 0:
            _violate("C04", "suite_negative_available", f"{where}: {key} available {a}")
        if a + b != t:
            _violate("C04", "suite_ledger_not_conserved", f"{where}: {key} available {a} + allocated {b} != total {t}")


def _install_ledger():
    from workload.resources import Resources
    from workers.workers import Worker, WorkerPool

    def pre_res(self, *a, **k):
        return _snapshot(self)

    def post_res(name):
        def post(tok, ret, self, *a, **k):
            _count(f"c04_{name}")
            _judge_ledger(self, f"after Resources.{name}")
        return post

    def exc_res(name):
        def on_exc(tok, exc, self, *a, **k):
            if not isinstance(exc, Exception):
                return
            _count("c04_refused_requests_judged")
            if tok is not None and _snapshot(self) != tok:
                _violate("C04", "suite_refused_request_changed_ledger", f"Resources.{name} raised {type(exc).__name__} and left the ledger changed")
        return on_exc
    for name in ("allocate", "allocate_multiple", "deallocate"):
        _wrap(Resources, name, pre=pre_res, post=post_res(name), on_exc=exc_res(name))

    def pre_w(self, *a, **k):
        return _snapshot(self._resources)

    def post_w(name):
        def post(tok, ret, self, *a, **k):
            _count(f"c04_worker_{name}")
            _judge_ledger(self._resources, f"after Worker.{name} on {self.name}")
        return post

    def exc_w(name):
        def on_exc(tok, exc, self, *a, **k):
            if not isinstance(exc, Exception):
                return
            _count("c04_refused_requests_judged")
            if tok is not None and _snapshot(self._resources) != tok:
                _violate("C04", "suite_refused_request_changed_ledger", f"Worker.{name} on {self.name} raised {type(exc).__name__} and left the ledger changed")
        return on_exc
    for name in ("place_task", "remove_task", "load_profile", "evict_profile"):
        _wrap(Worker, name, pre=pre_w, post=post_w(name), on_exc=exc_w(name))

    def post_copy(tok, ret, self, *a, **k):
        _count("c04_worker_copies_judged")
        if _snapshot(ret._resources)[:2] != _snapshot(self._resources)[:2]:
            _violate("C04", "suite_copy_occupancy_differs", f"copy of worker {self.name}: {_snapshot(ret._resources)[:2]} vs {_snapshot(self._resources)[:2]}")
        if ret._resources is self._resources:
            _violate("C04", "suite_copy_shares_ledger", f"copy of worker {self.name} shares the Resources object")
        _judge_ledger(ret._resources, f"copy of worker {self.name}")
    _wrap(Worker, "__copy__", post=post_copy)

    def post_deepcopy(tok, ret, self, *a, **k):
        _count("c04_worker_deepcopies_judged")
        avail, alloc, total = _ledger(ret._resources)
        if any(alloc.values()) or avail != total:
            _violate("C04", "suite_deepcopy_not_empty", f"deep copy of worker {self.name}: available {avail} total {total} allocated {alloc}")
        if _ledger(self._resources)[2] != total:
            _violate("C04", "suite_deepcopy_other_capacity", f"deep copy of worker {self.name}: total {total} vs {_ledger(self._resources)[2]}")
    _wrap(Worker, "__deepcopy__", post=post_deepcopy)

    def pre_pool(self, *a, **k):
        return [(_w, _snapshot(_w._resources)) for _w in self.workers]

    def post_pool_place(tok, ret, self, *a, **k):
        _count("c04_pool_place_task")
        changed = [w for w, snap in (tok or []) if _snapshot(w._resources) != snap]
        if ret is False and changed:
            _violate("C04", "suite_refused_request_changed_ledger", f"WorkerPool.place_task on {self.name} returned False and changed {[w.name for w in changed]}")
        if ret is True and len(changed) > 1:
            _violate("C01", "suite_task_draws_from_two_workers", f"WorkerPool.place_task on {self.name} changed the ledgers of {[w.name for w in changed]}")
    _wrap(WorkerPool, "place_task", pre=pre_pool, post=post_pool_place)


# ------------------------------------------------------------------------------------------------
# C06 lifecycle
# ------------------------------------------------------------------------------------------------
LEGAL = {
    ("VIRTUAL", "RELEASED"), ("VIRTUAL", "SCHEDULED"), ("RELEASED", "SCHEDULED"),
    ("SCHEDULED", "SCHEDULED"), ("SCHEDULED", "VIRTUAL"), ("SCHEDULED", "RELEASED"),
    ("SCHEDULED", "RUNNING"), ("RUNNING", "COMPLETED"),
    ("VIRTUAL", "CANCELLED"), ("RELEASED", "CANCELLED"), ("SCHEDULED", "CANCELLED"),
}
_PREEMPTED = set()  # ids of tasks that were ever preempted / resumed / evicted: outside the property's automaton


def _install_lifecycle():
    from workload.tasks import Task

    def pre(self, *a, **k):
        return self._state.name

    def post(method):
        def f(tok, ret, self, *a, **k):
            if tok is None:
                return
            now = self._state.name
            if method in ("preempt", "resume") or now in ("PREEMPTED", "EVICTED") or tok in ("PREEMPTED", "EVICTED"):
                _PREEMPTED.add(id(self))
            if id(self) in _PREEMPTED:
                _count("c06_moves_of_preempted_tasks_skipped")
                return
            _count("c06_task_method_calls_judged")
            if now == tok:
                if method == "schedule" and tok == "SCHEDULED":
                    _count("c06_replans")
                return
            _count("c06_state_changes_judged")
            if (tok, now) not in LEGAL:
                _violate("C06", "suite_illegal_transition", f"{self.unique_name}: {tok} -> {now} via Task.{method}")
            if tok in ("COMPLETED", "CANCELLED"):
                _violate("C06", "suite_left_final_state", f"{self.unique_name}: {tok} -> {now} via Task.{method}")
        return f
    for m in ("release", "schedule", "unschedule", "start", "step", "finish", "cancel", "preempt", "resume"):
        _wrap(Task, m, pre=pre, post=post(m))


# ------------------------------------------------------------------------------------------------
# C16 time values and the event queue
# ------------------------------------------------------------------------------------------------
_US = None


def _us(t):
    """exact microseconds of an EventTime, from its own fields"""
    return t._time * _US[t._unit]


def _install_time():
    import utils
    ET = utils.EventTime
    global _US
    _US = {ET.Unit.US: 1, ET.Unit.MS: 1000, ET.Unit.S: 1000000}
    import operator
    cmp_ops = {"__eq__": operator.eq, "__lt__": operator.lt, "__le__": operator.le, "__gt__": operator.gt, "__ge__": operator.ge,
               "__ne__": operator.ne}

    def post_cmp(name, op):
        def f(tok, ret, self, other, *a, **k):
            if type(other) is not ET or ret is NotImplemented:
                return
            _count("c16_comparisons_judged")
            if self._unit != other._unit:
                _count("c16_mixed_unit_comparisons_judged")
            want = op(_us(self), _us(other))
            if bool(ret) != want:
                _violate("C16", f"suite_eventtime{name}", f"{self!r} {name} {other!r} returned {ret}, microseconds say {want}")
        return f
    for name, op in cmp_ops.items():
        if name in ET.__dict__:
            _wrap(ET, name, post=post_cmp(name, op))

    def post_arith(name, sign):
        def f(tok, ret, self, other, *a, **k):
            if type(other) is not ET or type(ret) is not ET:
                return
            _count("c16_arithmetic_judged")
            if self._unit != other._unit:
                _count("c16_mixed_unit_arithmetic_judged")
            want = _us(self) + sign * _us(other)
            if _us(ret) != want:
                _violate("C16", f"suite_eventtime{name}", f"{self!r} {name} {other!r} = {ret!r}, microseconds say {want}")
        return f
    for name, sign in (("__add__", 1), ("__sub__", -1)):
        if name in ET.__dict__:
            _wrap(ET, name, post=post_arith(name, sign))

    import simulator
    from .common import EVENT_RANK

    def key(ev):
        return (_us(ev.time), EVENT_RANK.get(ev.event_type.name, 99))

    def pre_next(self, *a, **k):
        return [key(e) for e in self._event_queue]

    def post_next(tok, ret, self, *a, **k):
        if not tok:
            return
        _count("c16_queue_pops_judged")
        if len(tok) > 1:
            _count("c16_queue_pops_with_choice")
        if key(ret) != min(tok):
            _violate("C16", "suite_queue_pop_not_minimum", f"EventQueue.next() returned {ret} with key {key(ret)}, the minimum pending was {min(tok)}")
    _wrap(simulator.EventQueue, "next", pre=pre_next, post=post_next)


# ------------------------------------------------------------------------------------------------
# C03 clock
# ------------------------------------------------------------------------------------------------
def _install_clock():
    import simulator
    last = {}

    def post_step(tok, ret, self, *a, **k):
        _count("c03_steps_judged")
        now = _us(self._simulator_time)
        prev = last.get(id(self))
        if prev is not None and prev[0] is self and now < prev[1]:
            _violate("C03", "suite_clock_moved_backwards", f"simulator clock {prev[1]} -> {now}")
        last[id(self)] = (self, now)
    _wrap(simulator.Simulator, "_Simulator__step", post=post_step)


# ------------------------------------------------------------------------------------------------
# C17 graph algorithms
# ------------------------------------------------------------------------------------------------
def _edges(g):
    nodes = list(g.get_nodes())
    return nodes, {id(n): [c for c in g.get_children(n)] for n in nodes}


def _reachable(children, start):
    seen, todo = {id(start)}, [start]
    while todo:
        n = todo.pop()
        for c in children.get(id(n), ()):
            if id(c) not in seen:
                seen.add(id(c))
                todo.append(c)
    return seen


def _has_cycle(nodes, children):
    color = {}
    for root in nodes:
        if id(root) in color:
            continue
        stack = [(root, iter(children.get(id(root), ())))]
        color[id(root)] = 1
        while stack:
            n, it = stack[-1]
            for c in it:
                if color.get(id(c)) == 1:
                    return True
                if id(c) not in color:
                    color[id(c)] = 1
                    stack.append((c, iter(children.get(id(c), ()))))
                    break
            else:
                color[id(n)] = 2
                stack.pop()
    return False


def _install_graph():
    from workload.graph import Graph

    def post_topo(tok, ret, self, *a, **k):
        nodes, children = _edges(self)
        _count("c17_topological_sorts_judged")
        if len(nodes) > 2:
            _count("c17_topological_sorts_of_3plus_nodes")
        if _has_cycle(nodes, children):
            _violate("C17", "suite_cycle_not_reported", f"topological_sort returned an order for a graph with a cycle ({len(nodes)} nodes)")
            return
        pos = {}
        for i, n in enumerate(ret):
            if id(n) in pos:
                _violate("C17", "suite_topological_order_repeats", f"{n} listed twice")
            pos[id(n)] = i
        if set(pos) != {id(n) for n in nodes}:
            _violate("C17", "suite_topological_order_incomplete", f"{len(pos)} of {len(nodes)} nodes listed")
            return
        for n in nodes:
            for c in children[id(n)]:
                if id(c) in pos and pos[id(c)] < pos[id(n)]:
                    _violate("C17", "suite_topological_order_child_first", f"{c} before its parent {n}")

    def exc_topo(tok, exc, self, *a, **k):
        if isinstance(exc, RuntimeError):
            nodes, children = _edges(self)
            _count("c17_cycle_reports_judged")
            if not _has_cycle(nodes, children):
                _violate("C17", "suite_cycle_reported_on_dag", f"topological_sort raised on an acyclic graph of {len(nodes)} nodes")
    _wrap(Graph, "topological_sort", post=post_topo, on_exc=exc_topo)

    for name in ("breadth_first", "depth_first"):
        orig = Graph.__dict__[name]

        def make(name, orig):
            def gen(self, node=None):
                out = []
                for x in orig(self, node):
                    out.append(x)
                    yield x
                _guarded(_judge_traversal)(name, self, node, out)
            gen.__name__ = name
            gen.__wrapped__ = orig
            return gen
        setattr(Graph, name, make(name, orig))


def _judge_traversal(name, g, start, out):
    nodes, children = _edges(g)
    if _has_cycle(nodes, children):
        return
    _count(f"c17_{name}_traversals_judged")
    ids = [id(x) for x in out]
    if len(set(ids)) != len(ids):
        _violate("C17", f"suite_{name}_repeats", f"a node is yielded twice ({len(ids)} yields, {len(set(ids))} distinct)")
    if start is None:
        want = {id(n) for n in nodes}
    else:
        want = _reachable(children, start)
    if set(ids) != want:
        _violate("C17", f"suite_{name}_wrong_set", f"yielded {len(set(ids))} nodes, {'all nodes' if start is None else 'reachable from ' + str(start)} are {len(want)}")
    if name == "breadth_first" and start is None:
        pos = {i: k for k, i in enumerate(ids)}
        for n in nodes:
            for c in children[id(n)]:
                if id(c) in pos and id(n) in pos and pos[id(c)] < pos[id(n)]:
                    _violate("C17", "suite_breadth_first_child_before_parent", f"{c} before its parent {n}")


# ------------------------------------------------------------------------------------------------
# C18 frontier
# ------------------------------------------------------------------------------------------------
def _install_frontier():
    from workload.tasks import TaskGraph

    def post(tok, ret, self, time, lookahead=None, preemption=False, retract_schedules=False, *a, **k):
        _count("c18_frontier_calls_judged")
        for t in ret:
            st = t._state.name
            _count("c18_offered_tasks_judged")
            if id(t) in _PREEMPTED or st in ("PREEMPTED", "EVICTED"):
                continue
            if st in ("COMPLETED", "CANCELLED"):
                _violate("C18", "suite_finished_task_offered", f"{t.unique_name} in state {st} offered at {time}")
            if st == "RUNNING" and not preemption:
                _violate("C18", "suite_running_task_offered", f"{t.unique_name} RUNNING offered at {time} without preemption")
            if st == "SCHEDULED" and not preemption and not retract_schedules:
                _violate("C18", "suite_scheduled_task_offered", f"{t.unique_name} SCHEDULED offered at {time} without retraction or preemption")
    _wrap(TaskGraph, "get_schedulable_tasks", post=post)


# ------------------------------------------------------------------------------------------------
# pytest plugin hooks
# ------------------------------------------------------------------------------------------------
def pytest_configure(config):
    if not os.environ.get(OUT_ENV):
        return
    for inst in (_install_ledger, _install_lifecycle, _install_time, _install_clock, _install_graph, _install_frontier):
        try:
            inst()
            _count("monitors_installed")
        except Exception as e:  # noqa: BLE001
            STATE.setdefault("errors", []).append(f"install {inst.__name__}: {type(e).__name__}: {e}")


def pytest_runtest_setup(item):
    STATE["test"] = item.nodeid


def pytest_runtest_logreport(report):
    if report.when == "call":
        _count("tests_" + report.outcome)
    elif report.when == "setup" and report.outcome == "skipped":
        _count("tests_skipped")


def pytest_sessionfinish(session, exitstatus):
    path = os.environ.get(OUT_ENV)
    if not path:
        return
    with open(path, "w") as f:
        json.dump({"viol": STATE["viol"], "counters": STATE["counters"], "errors": STATE.get("errors", []),
                   "kinds_total": {f"{p}:{k}": n for (p, k), n in STATE["per_kind"].items()}, "exitstatus": int(exitstatus)}, f)


# ------------------------------------------------------------------------------------------------
# runner (harness side)
# ------------------------------------------------------------------------------------------------
SUITE_PIDS = ("C04", "C06", "C16", "C17", "C18")  # C03's clock monitor sees only a handful of steps in the tests: not claimed
FLOORS = {"C04": ("c04_ledger_states_judged", 200), "C06": ("c06_state_changes_judged", 150),
          "C16": ("c16_comparisons_judged", 5000), "C17": ("c17_topological_sorts_judged", 100), "C18": ("c18_frontier_calls_judged", 50)}


def run_suite(repo, workdir, only=None, timeout_s=1500):
    """runs the repository's pinned tests with the monitors attached; returns the plugin's record"""
    os.makedirs(workdir, exist_ok=True)
    out = os.path.join(workdir, "suitemon.json")
    env = dict(os.environ)
    verif = os.path.dirname(os.path.dirname(os.path.abspath(__file__)))
    env["PYTHONPATH"] = verif + os.pathsep + repo + os.pathsep + env.get("PYTHONPATH", "")
    env["PYTHONDONTWRITEBYTECODE"] = "1"
    env[OUT_ENV] = out
    env["VERIF_REPO"] = repo
    cmd = ["/venv/bin/python", "-m", "pytest", "-q", "-p", "no:cacheprovider", "-p", "vmon.suitemon", "--timeout=900",
           "--continue-on-collection-errors", "-x" if False else "-ra"]
    if only:
        cmd.append(only)
    t0 = time.time()
    try:
        pr = subprocess.run(cmd, cwd=repo, env=env, stdout=subprocess.PIPE, stderr=subprocess.STDOUT, timeout=timeout_s)
        tail = pr.stdout.decode(errors="replace")[-1500:]
        rc = pr.returncode
    except subprocess.TimeoutExpired:
        return {"viol": [], "counters": {}, "errors": ["suite timed out"], "suite_rc": None, "tail": "", "wall_s": time.time() - t0}
    rec = {"viol": [], "counters": {}, "errors": ["plugin wrote no record"], "kinds_total": {}}
    if os.path.exists(out):
        with open(out) as f:
            rec = json.load(f)
        os.remove(out)
    rec["suite_rc"] = rc
    rec["tail"] = tail
    rec["wall_s"] = round(time.time() - t0, 1)
    return rec


if __name__ == "__main__":
    r = run_suite(os.environ.get("VERIF_REPO", "/repo"), "/verif/out/suitemon-manual", only=(sys.argv[1] if len(sys.argv) > 1 else None))
    print(json.dumps({k: v for k, v in r.items() if k != "tail"}, indent=1)[:6000])
    print(r["tail"][-600:])
