"""End-to-end runner: executes a generated world through the project's own entry
path (flags -> main.main -> loaders -> policy -> Simulator.simulate) with
class-level monitors attached, and returns what the monitors observed.

One Ctx per run.  Hooks are installed once per process and dispatch to the
active Ctx.  Monitors only read; they never change arguments or results.

Violations are recorded as dicts {prop, kind, detail, t, seq}.  `kind` is the
mechanism-level name used by known_findings.json.
"""
import os
import random
import shutil
import signal
import sys
import time
import traceback

from . import common
from .common import COUNTS, wrap
from . import worldgen

import logging

_ACTIVE = None  # the Ctx of the run in progress
_INSTALLED = False

LEGAL = {
    ("VIRTUAL", "RELEASED"), ("VIRTUAL", "SCHEDULED"), ("RELEASED", "SCHEDULED"),
    ("SCHEDULED", "SCHEDULED"), ("SCHEDULED", "VIRTUAL"), ("SCHEDULED", "RELEASED"),
    ("SCHEDULED", "RUNNING"), ("RUNNING", "COMPLETED"),
    ("VIRTUAL", "CANCELLED"), ("RELEASED", "CANCELLED"), ("SCHEDULED", "CANCELLED"),
}
FINAL = ("COMPLETED", "CANCELLED")

MAX_ZERO_STEPS = 2000  # consecutive __step calls without clock advance or handled event
MAX_EVENTS_PER_INSTANT = 3000
MAX_VIOLATIONS = 40


class Watchdog(BaseException):
    """raised by the harness' logical watchdog; a BaseException so that no `except Exception` (the repository's or a
    monitor's) can swallow it or mistake it for an exception of the code under observation"""


class WallClock(BaseException):
    """raised by the wall-clock alarm (tooling-inconclusive, never a verdict); see Watchdog"""


class Ctx:
    def __init__(self, world, opts=None):
        self.world = world
        self.opts = opts or {}
        self.seq = 0
        self.log = []  # (seq, t, kind, subject, payload)
        self.violations = []
        self.counters = {}
        self.sim = None
        self.clock = 0
        self.live = {}  # id(worker) -> shadow worker dict
        self.live_pools = {}  # pool id str -> [shadow workers]
        self.csv = []
        self.tasks = {}  # id(task) -> task record dict
        self.task_objs = {}
        self.graph_desc = {}
        for g in world["workload"]["graphs"]:
            parents, children, flags = {}, {}, {}
            for n in g["graph"]:
                children[n["name"]] = list(n.get("children", []))
                parents.setdefault(n["name"], [])
                flags[n["name"]] = {"conditional": bool(n.get("conditional")),
                                    "terminal": bool(n.get("terminal")),
                                    "probability": n.get("probability", 1.0)}
            for n, cs in children.items():
                for c in cs:
                    parents.setdefault(c, []).append(n)
            self.graph_desc[g["name"]] = {"parents": parents, "children": children, "flags": flags,
                                          "desc": g}
        self.zero_steps = 0
        self.events_this_instant = 0
        self.in_handler = None
        self.handler_started = set()
        self.sched_calls = []
        self.frontier_calls = []
        self.current_schedule_call = None
        self.ended = False
        self.end_time = None
        self.exception = None
        self.variance = world["flags"].get("runtime_variance", 0)
        self.graph_finished_rows = {}
        self.released_graphs = []
        self.inflight = {}
        self.max_inflight = {}
        self.samegroup = {}
        self.running_due = {}  # id(task) -> (unique name, instant the running execution is due to complete)

    # -- helpers ---------------------------------------------------------
    def ev(self, kind, subject=None, **payload):
        self.seq += 1
        self.log.append((self.seq, self.clock, kind, subject, payload))
        return self.seq

    def count(self, key, n=1):
        self.counters[key] = self.counters.get(key, 0) + n

    def violate(self, prop, kind, detail, **facts):
        if len(self.violations) < MAX_VIOLATIONS:
            self.violations.append({"prop": prop, "kind": kind, "detail": detail,
                                    "t": self.clock, "seq": self.seq, "facts": facts})

    def trec(self, task):
        r = self.tasks.get(id(task))
        if r is None:
            gname = task.task_graph.split("@")[0]
            if gname not in self.graph_desc and self.world["flags"].get("replication_factor", 1) > 1 and "_" in gname:
                gname = gname.rsplit("_", 1)[0]  # a replica <application>_<i> of --replication_factor: same description
            r = {"name": task.name, "graph": task.task_graph, "gbase": gname, "uname": task.unique_name,
                 "released_at": None, "starts": [], "finishes": [], "removed_at": None,
                 "cancelled_at": None, "applied": None, "applied_at": None, "state": task._state.name,
                 "history": [task._state.name], "decisions": 0, "id": task.id,
                 "first_attempt_done": False, "graph_release": task._release_time.time,
                 "deadline_seen": task._deadline.time}
            self.tasks[id(task)] = r
            self.task_objs[id(task)] = task
        return r

    def rec_by_name(self, graph, name):
        for r in self.tasks.values():
            if r["graph"] == graph and r["name"] == name:
                return r
        return None

    def parents_of(self, rec):
        gd = self.graph_desc.get(rec["gbase"])
        if gd is None:
            return None
        return gd["parents"].get(rec["name"], [])


# ---------------------------------------------------------------------------
# shadow cluster
# ---------------------------------------------------------------------------
def _demand(strategy):
    d = {}
    for res, q in strategy.resources.resources:
        d[res.name] = d.get(res.name, 0) + q
    return d


def _request(strategy):
    """{(name, id or 'any'): quantity} of a strategy."""
    d = {}
    for res, q in strategy.resources.resources:
        d[(res.name, res.id)] = d.get((res.name, res.id), 0) + q
    return d


def _shadow_usage(sw):
    use = {}
    for key, ent in sw["residents"].items():
        for n, q in ent["demand"].items():
            use[n] = use.get(n, 0) + q
    return use


def _shadow_free(sw):
    f = dict(sw["cap_inst"])
    for ent in sw["residents"].values():
        for n, i, q in ent.get("alloc", ()):
            f[(n, i)] = f.get((n, i), 0) - q
    return f


def _shadow_fits(sw, request):
    """instance-level fit: specific ids from their instance, 'any' from what is left."""
    f = _shadow_free(sw)
    for name in {n for (n, _) in request}:
        spec = 0
        for (n, i), q in request.items():
            if n == name and i != "any":
                if q > f.get((n, i), 0):
                    return False
                spec += q
        anyq = sum(q for (n, i), q in request.items() if n == name and i == "any")
        if anyq + spec > sum(v for (n, i), v in f.items() if n == name):
            return False
    return True


def _shadow_admit(ctx, sw, ent, request, reported, who):
    """validate what the ledger reports for a new resident against the shadow, then adopt it."""
    f = _shadow_free(sw)
    by = {}
    for n, i, q in reported:
        if (n, i) not in sw["cap_inst"]:
            ctx.violate("C01", "foreign_resource", f"{who} holds {n}:{i} which is not a resource of {sw['name']}")
            continue
        if q > f[(n, i)]:
            ctx.violate("C01", "oversubscribed_instance", f"{who}: ledger gives {q} of {n}:{i} on {sw['name']} but only {f[(n, i)]} is free")
        f[(n, i)] -= q
        by[n] = by.get(n, 0) + q
    want = {}
    for (n, i), q in request.items():
        want[n] = want.get(n, 0) + q
        if i != "any" and sum(qq for nn, ii, qq in reported if nn == n and ii == i) < q:
            ctx.violate("C04", "specific_id_not_honoured", f"{who} asked {n}:{i} x{q}, holds {reported}")
    if {k: v for k, v in by.items() if v} != {k: v for k, v in want.items() if v}:
        ctx.violate("C04", "resident_without_its_resources", f"{who} on {sw['name']} holds {reported}, its strategy demands {want}")
    ent["alloc"] = list(reported)


def _shadow_check(ctx, sw, why):
    use = _shadow_usage(sw)
    ctx.count("c01_checks")
    for n, q in use.items():
        if q > sw["cap"].get(n, 0):
            ctx.violate("C01", "oversubscribed",
                        f"{why}: worker {sw['name']} resource {n}: demand {q} > capacity {sw['cap'].get(n, 0)}; "
                        f"residents={[(k, e['demand']) for k, e in sw['residents'].items()]}")
    for (n, i), v in _shadow_free(sw).items():
        if v < 0:
            ctx.violate("C01", "oversubscribed_instance", f"{why}: worker {sw['name']} instance {n}:{i} over capacity by {-v}")
    nres = sum(len(e.get("members", [1])) for e in sw["residents"].values() if e["type"] != "profile")
    if nres >= 2:
        ctx.count("co_resident_instants")
        ctx.flags_seen = getattr(ctx, "flags_seen", set()) | {"coresident"}


# ---------------------------------------------------------------------------
# hooks
# ---------------------------------------------------------------------------
def install():
    global _INSTALLED
    if _INSTALLED:
        return
    _INSTALLED = True
    import simulator as simmod
    import workload.tasks as tasksmod
    import workload.workload as wlmod
    import workers.workers as workersmod

    Sim, Task, TaskGraph = simmod.Simulator, tasksmod.Task, tasksmod.TaskGraph
    Worker, EventQueue = workersmod.Worker, simmod.EventQueue
    EventType = simmod.EventType

    def active(fn):
        def inner(*a, **k):
            if _ACTIVE is not None:
                fn(_ACTIVE, *a, **k)
        return inner

    # ---- Simulator construction: register live cluster --------------------
    @active
    def sim_init_after(ctx, ret, self, *a, **k):
        ctx.sim = self
        desc = {(p["name"], w["name"]): w for p in ctx.world["cluster"] for w in p["workers"]}
        for pool in self._worker_pools.worker_pools:
            sws = []
            for w in pool.workers:
                d = desc.get((pool.name, w.name))
                if d is None:
                    ctx.violate("C19", "cluster_mismatch", f"worker {pool.name}/{w.name} not in description")
                    continue
                sw = {"name": f"{pool.name}/{w.name}", "cap": worldgen.worker_capacity(d), "residents": {},
                      "pool": pool.id, "wid": w.id, "obj": w, "cap_inst": {}}
                live_res = list(w.resources.resources)
                if len(live_res) != len(d["resources"]):
                    ctx.violate("C19", "cluster_mismatch", f"worker {sw['name']}: {len(live_res)} resources, description has {len(d['resources'])}")
                for (res, q), rd in zip(live_res, d["resources"]):
                    dn = rd["name"].split(":")
                    if res.name != dn[0] or q != rd["quantity"] or (len(dn) > 1 and res.id != dn[1]):
                        ctx.violate("C19", "cluster_mismatch", f"worker {sw['name']}: resource {res} x{q} vs description {rd}")
                    # capacity from the description, identity (generated uuid) from the object
                    sw["cap_inst"][(dn[0], res.id)] = rd["quantity"]
                ctx.live[id(w)] = sw
                sws.append(sw)
            ctx.live_pools[pool.id] = sws
        if ctx.world["meta"].get("preload"):
            # The repository's own start-up phase (scheduler.start at SIMULATOR_START) is
            # commented out; do what it would do: ask the policy for its initial LOAD
            # placements and apply them to the live pools.
            profiles = self._workload_loader.workload.work_profiles
            pls = self._scheduler.start(self._simulator_time, profiles, self._worker_pools)
            for p in pls:
                self._worker_pools.get_worker_pool(p.worker_pool_id).load_profile(
                    p.work_profile, p.loading_strategy, p.worker_id)
            ctx.count("preloaded_profiles", len(list(pls)))
    wrap(Sim, "__init__", after=sim_init_after)

    # ---- clock -------------------------------------------------------------
    @active
    def step_before(ctx, self, step_size=None, **k):
        if step_size is None:
            step_size = k.get("step_size")
        ctx._step_from = self._simulator_time.to(self._simulator_time.unit).time
        ss = step_size.time if step_size is not None else 1
        ctx._step_size = ss
        if ss < 0:
            ctx.violate("C03", "negative_step", f"step_size={ss} at {ctx._step_from}")
        if ss == 0:
            ctx.zero_steps += 1
            if ctx.zero_steps > MAX_ZERO_STEPS:
                raise Watchdog(f"livelock: {ctx.zero_steps} consecutive zero-length steps at t={ctx._step_from}")
        else:
            ctx.zero_steps = 0
            ctx.events_this_instant = 0

    @active
    def step_after(ctx, ret, self, *a, **k):
        now = self._simulator_time.time
        ctx.count("steps")
        if now < ctx.clock:
            ctx.violate("C03", "clock_backwards", f"{ctx.clock} -> {now}")
        if now != ctx._step_from + ctx._step_size:
            ctx.violate("C03", "clock_step_mismatch", f"from {ctx._step_from} by {ctx._step_size} gave {now}")
        ctx.clock = now
    wrap(Sim, "_Simulator__step", before=step_before, after=step_after)

    # ---- event queue order -------------------------------------------------
    def _key(e):
        return (e.time.to(type(e.time).Unit.US).time,
                common.EVENT_RANK[e.event_type.name], e.task.unique_name if e.task is not None else "")

    @active
    def next_before(ctx, self):
        ctx._queue_snapshot = list(self._event_queue)

    @active
    def next_after(ctx, ret, self):
        if ctx.sim is None or self is not ctx.sim._event_queue:
            return
        k = _key(ret)
        ctx.count("pops")
        for e in ctx._queue_snapshot:
            if e is ret:
                continue
            ke = _key(e)
            if ke < k:
                ctx.violate("C03", "queue_order",
                            f"popped {ret.event_type.name}@{k[0]} ({k[2]}) while {e.event_type.name}@{ke[0]} ({ke[2]}) queued")
                break
    wrap(EventQueue, "next", before=next_before, after=next_after)

    # ---- event handling ----------------------------------------------------
    @active
    def handle_before(ctx, self, event):
        ctx.zero_steps = 0
        ctx.events_this_instant += 1
        if ctx.events_this_instant > MAX_EVENTS_PER_INSTANT:
            raise Watchdog(f"{ctx.events_this_instant} events handled at one instant t={ctx.clock}")
        et = event.time.time
        name = event.event_type.name
        ctx.in_handler = name
        ctx.handler_started = set()
        ctx.count("ev_" + name)
        if et != ctx.clock:
            ctx.violate("C03", "event_at_wrong_clock", f"{name} for t={et} handled at clock {ctx.clock}")
        if et > ctx.world["flags"]["loop_timeout"] and name != "SIMULATOR_END":
            ctx.count("events_after_timeout")
        grp = ctx.samegroup.setdefault(et, set())
        grp.add(name)
        # C03: events take effect in time order, resource-freeing ones first: nothing ranked after
        # TASK_FINISHED may be handled while an execution that is due by now has not been finished
        if ctx.running_due and common.EVENT_RANK.get(name, 0) > common.EVENT_RANK["TASK_FINISHED"]:
            late = [(u, d) for (u, d) in ctx.running_due.values() if d <= et]
            ctx.count("due_completion_checks")
            if late:
                u, d = min(late, key=lambda x: x[1])
                ctx.violate("C03", "event_handled_before_due_completion",
                            f"{name} at t={et} handled while {u}, due to complete at {d}, is still running "
                            f"({len(late)} such execution(s))")
            elif any(d == et for (_, d) in ctx.running_due.values()):
                pass
        ctx.ev("EVENT", name, task=(event.task.unique_name if event.task is not None else None))
        if name == "TASK_PLACEMENT":
            _placement_attempt_before(ctx, event)
        if name == "SCHEDULER_START" and ctx.opts.get("frontier_probes"):
            _frontier_probes(ctx, self, event.time)
        if name == "SIMULATOR_END":
            ctx.ended = True
            ctx.end_time = et

    @active
    def handle_after(ctx, ret, self, event):
        name = event.event_type.name
        if name == "TASK_PLACEMENT":
            _placement_attempt_after(ctx, event)
        if name == "LOAD_PROFILE":
            _loaded_profile_check(ctx, self, event)
        ctx.in_handler = None
        _scan_states(ctx)
        _idle_capacity_check(ctx)
    wrap(Sim, "_Simulator__handle_event", before=handle_before, after=handle_after)

    # ---- Task lifecycle ------------------------------------------------------
    def task_hook(method):
        def before(ctx, self, *a, **k):
            r = ctx.trec(self)
            r["_pre"] = self._state.name
        before = active(before)

        def after(ctx, ret, self, *a, **k):
            r = ctx.trec(self)
            pre, post = r.pop("_pre", r["state"]), self._state.name
            _transition(ctx, r, pre, post, method)
            getattr(sys.modules[__name__], "_after_" + method)(ctx, r, self, a, k)
        after = active(after)
        wrap(Task, method, before=before, after=after)

    for m in ("release", "schedule", "unschedule", "start", "finish", "cancel", "preempt"):
        task_hook(m)

    # ---- live workers ----------------------------------------------------------
    @active
    def place_after(ctx, ret, self, task, execution_strategy=None, *a, **k):
        sw = ctx.live.get(id(self))
        if sw is None:
            return
        if execution_strategy is None:
            execution_strategy = k.get("execution_strategy")
        r = ctx.trec(task)
        ctx.count("live_place")
        for other in ctx.live.values():
            if other is not sw:
                for key, ent in other["residents"].items():
                    if id(task) in ent.get("members", ()):
                        ctx.violate("C01", "two_workers", f"{r['uname']} resident on {other['name']} and {sw['name']}")
        import workload as wl
        if isinstance(execution_strategy, wl.BatchStrategy):
            key = ("batch", id(execution_strategy))
            ent = sw["residents"].get(key)
            if ent is None:
                ent = {"type": "batch", "demand": _demand(execution_strategy), "members": set(),
                       "size": execution_strategy.batch_size, "obj": execution_strategy}
                sw["residents"][key] = ent
            ent["members"].add(id(task))
            if len(ent["members"]) > ent["size"]:
                ctx.violate("C01", "batch_overfull", f"{len(ent['members'])} members in batch of size {ent['size']}")
        else:
            key = ("task", id(task))
            sw["residents"][key] = {"type": "task", "demand": _demand(execution_strategy), "members": {id(task)}}
        try:
            reported = sorted((res.name, res.id, q) for res, q in self.get_allocated_resources(task))
        except Exception as e:  # ledger could not answer
            ctx.violate("C04", "allocated_resources_unavailable", f"{r['uname']}: {type(e).__name__}: {e}")
            reported = None
        ent = sw["residents"][key]
        if reported is not None:
            if ent["type"] == "batch" and "alloc" in ent:
                if reported != sorted(ent["alloc"]):
                    ctx.violate("C04", "batch_member_allocation", f"{r['uname']} joined a batch but reports {reported}, the batch holds {ent['alloc']}")
            else:
                _shadow_admit(ctx, sw, ent, _request(execution_strategy), reported, r["uname"])
        r["worker"] = sw["name"]
        r["pool_id"] = sw["pool"]
        r["demand"] = _demand(execution_strategy)
        r["worker_res_ids"] = {(res.name, res.id) for res, _ in self.resources.resources}
        r["strategy_runtime"] = execution_strategy.runtime.time
        ctx.ev("PLACE", r["uname"], worker=sw["name"], demand=_demand(execution_strategy))
        _shadow_check(ctx, sw, f"place {r['uname']}")
    wrap(Worker, "place_task", after=place_after)

    @active
    def remove_after(ctx, ret, self, current_time=None, task=None, *a, **k):
        sw = ctx.live.get(id(self))
        if sw is None:
            return
        r = ctx.trec(task)
        found = False
        for key, ent in list(sw["residents"].items()):
            if ent["type"] != "profile" and id(task) in ent["members"]:
                ent["members"].discard(id(task))
                found = True
                if not ent["members"]:
                    del sw["residents"][key]
        if not found:
            ctx.violate("C04", "remove_unknown", f"{r['uname']} removed from {sw['name']} but shadow had no such resident")
        r["removed_at"] = ctx.clock
        ctx.ev("REMOVE", r["uname"], worker=sw["name"])
    wrap(Worker, "remove_task", after=remove_after)

    @active
    def load_after(ctx, ret, self, profile, loading_strategy, *a, **k):
        sw = ctx.live.get(id(self))
        if sw is None:
            return
        ent = {"type": "profile", "demand": _demand(loading_strategy), "name": profile.name,
               "available_at": ctx.clock + loading_strategy.runtime.time}
        sw["residents"][("profile", id(profile))] = ent
        import workload as wl
        rep = []
        for (n, i) in sw["cap_inst"]:
            for comp, q in self.resources.get_allocated_computation(wl.Resource(name=n, _id=i)):
                if comp is profile:
                    rep.append((n, i, q))
        _shadow_admit(ctx, sw, ent, _request(loading_strategy), sorted(rep), f"profile {profile.name}")
        ctx.count("live_load")
        ctx.ev("LOAD", profile.name, worker=sw["name"])
        _shadow_check(ctx, sw, f"load {profile.name}")
    wrap(Worker, "load_profile", after=load_after)

    @active
    def evict_after(ctx, ret, self, profile, *a, **k):
        sw = ctx.live.get(id(self))
        if sw is None:
            return
        sw["residents"].pop(("profile", id(profile)), None)
        ctx.ev("EVICT", profile.name, worker=sw["name"])
    wrap(Worker, "evict_profile", after=evict_after)

    # ---- conditional resolution / releases -------------------------------------------
    @active
    def notify_before(ctx, self, task, finish_time):
        ctx._probs = {c.name: c.probability for c in self.get_children(task)}
        ctx._child_states = {c.name: c._state.name for c in self.get_children(task)}

    @active
    def notify_after(ctx, ret, self, task, finish_time):
        released, cancelled = ret
        r = ctx.trec(task)
        rel_names = [t.name for t in released]
        ctx.ev("NOTIFY", r["uname"], released=rel_names, cancelled=[t.name for t in cancelled])
        gd = ctx.graph_desc.get(r["gbase"])
        if gd is None:
            return
        kids = gd["children"].get(r["name"], [])
        if gd["flags"][r["name"]]["conditional"]:
            ctx.count("conditional_completions")
            if gd["flags"][r["name"]].get("terminal"):
                ctx.count("conditional_completions_of_a_join")  # the join of one conditional is itself the next conditional
            # "cancelled up to but excluding the join": the resolution of this conditional must not cancel its own join
            for blk in ctx.world["meta"]["blocks"].get(r["gbase"], []):
                if blk["cond"] == r["name"] and any(br.get("empty") for br in blk["branches"]):
                    ctx.count("empty_branch_completions")
                    if released and released[0].name == blk["terminal"]:
                        ctx.count("empty_branch_taken")
                # (when nothing was released -- every eligible child had been cancelled beforehand -- no branch runs and the
                # join is starved: its cancellation is the downstream closure of C06, not a fault of the resolution)
                if blk["cond"] == r["name"] and released and blk["terminal"] in [t.name for t in cancelled]:
                    taken = next((br for br in blk["branches"] if br["entry"] == released[0].name), None)
                    recs_here = {x["name"]: x for x in ctx.tasks.values() if x["graph"] == r["graph"]}
                    if taken is not None and any(recs_here.get(n, {}).get("state") == "CANCELLED" for n in taken["nodes"]
                                                 if n != released[0].name):
                        # a task further down the TAKEN branch had been cancelled before (dropped or cancelled by the policy):
                        # the join can no longer receive its input and its cancellation is the downstream closure of C06
                        ctx.count("join_cancelled_because_taken_branch_was_cut")
                        continue
                    empty = [br for br in blk["branches"] if br.get("empty")]
                    taken_is_empty = bool(released) and released[0].name == blk["terminal"]
                    ctx.violate("C07", "join_cancelled_by_branch_resolution",
                                f"{r['uname']} completed, released {rel_names} and cancelled its own join {blk['terminal']} "
                                f"(cancelled: {[t.name for t in cancelled]})",
                                empty_branch_untaken=bool(empty) and not taken_is_empty)
            probs = ctx._probs
            if ctx.world["flags"].get("resolve_conditionals_at_submission"):
                # a conditional that runs to completion lies on a taken path: at submission exactly one of its
                # children must have been resolved to 1.0 and the others to 0.0
                snap0 = ctx.prob_snapshot.get((r["graph"],), {}) if hasattr(ctx, "prob_snapshot") else {}
                if snap0 and all(k in snap0 for k in kids):
                    ctx.count("resolution_snapshots_judged")
                    if sorted(snap0[k] for k in kids) != [0.0] * (len(kids) - 1) + [1.0]:
                        ctx.violate("C07", "not_resolved_to_one_child_at_submission",
                                    f"{r['uname']} completed; children at submission {[(k, snap0[k]) for k in kids]}")
            if len(released) != 1:
                # releasing nothing is only legitimate when every child that was eligible when the graph entered the
                # simulator (non-zero weight then) had already been cancelled -- by a policy that was offered the children
                # ahead of time -- before this completion was notified (a cancellation zeroes the child's weight)
                snap1 = ctx.prob_snapshot.get((r["graph"],), {}) if hasattr(ctx, "prob_snapshot") else {}
                eligible = [c for c in kids if snap1.get(c, probs.get(c, 0)) > 1e-12]
                if not all(ctx._child_states.get(c) == "CANCELLED" for c in eligible) or (not eligible and not snap1):
                    ctx.violate("C07", "not_exactly_one_child", f"{r['uname']} released {rel_names} with probs {probs}, "
                                                                  f"child states {ctx._child_states}")
            else:
                c = released[0].name
                if c not in kids:
                    ctx.violate("C07", "released_non_child", f"{r['uname']} released {c}")
                elif probs.get(c, 0) <= 1e-12:
                    ctx.violate("C07", "zero_probability_child", f"{r['uname']} released {c} with probs {probs}")
                r["chosen_child"] = c
                if ctx.world["flags"].get("resolve_conditionals_at_submission"):
                    snap = ctx.prob_snapshot.get((r["graph"],), {}) if hasattr(ctx, "prob_snapshot") else {}
                    want = [k for k in kids if snap.get(k, 0) == 1.0]
                    if want and c not in want:
                        ctx.violate("C07", "resolved_branch_not_taken", f"{r['uname']}: resolved {want}, released {c}")
                    if want:
                        ctx.count("resolved_at_submission_checked")
        else:
            # C18: exactly the children whose every parent is complete (join: first completed parent)
            expect = []
            for c in kids:
                cr = ctx.rec_by_name(r["graph"], c)
                st = ctx._child_states.get(c)
                if st == "CANCELLED":
                    continue
                if gd["flags"][c]["terminal"]:
                    expect.append(c)
                    continue
                ps = gd["parents"][c]
                done = all((ctx.rec_by_name(r["graph"], p) or {}).get("finishes") for p in ps)
                if done:
                    expect.append(c)
            ctx.count("notify_nonconditional")
            if sorted(expect) != sorted(rel_names):
                ctx.violate("C18", "release_on_completion_mismatch",
                            f"{r['uname']} completed: released {sorted(rel_names)} expected {sorted(expect)}")
    wrap(TaskGraph, "notify_task_completion", before=notify_before, after=notify_after)

    # ---- workload entering the simulator: probability snapshot -----------------------
    @active
    def update_workload_after(ctx, ret, self, event):
        # the probabilities as each graph ENTERED the simulator: taken once per graph (later updates -- with
        # --workload_update_interval the handler runs again -- must not overwrite it with values that cancellations
        # have zeroed since)
        if not hasattr(ctx, "prob_snapshot"):
            ctx.prob_snapshot = {}
        for gname, tg in self._workload.task_graphs.items():
            if (gname,) in ctx.prob_snapshot:
                continue
            ctx.prob_snapshot[(gname,)] = {t.name: t.probability for t in tg.get_nodes()}
            for t in tg.get_nodes():
                ctx.trec(t)
    wrap(Sim, "_Simulator__handle_update_workload", after=update_workload_after)

    # ---- policies (C10) and the frontier (C18) ---------------------------------------
    from . import policymon

    @active
    def sched_before(ctx, self, sim_time, workload, worker_pools):
        if ctx.sim is None or worker_pools is not ctx.sim._worker_pools:
            return
        import workload as wl
        call = {"t": sim_time.time, "policy": type(self).__name__, "offered": None,
                "preemptive": bool(self.preemptive), "retracting": bool(getattr(self, "retract_schedules", False)),
                "resident": sum(len(e["members"]) for sw in ctx.live.values()
                                for e in sw["residents"].values() if e["type"] != "profile"),
                "states": {tid: t._state.name for tid, t in ctx.task_objs.items()},
                "workers": {sw["wid"]: {"pool": sw["pool"], "cap": sw["cap"]} for sw in ctx.live.values()},
                "pools": {pid: [sw["wid"] for sw in sws] for pid, sws in ctx.live_pools.items()},
                "running": [], "scheduled": {}, "release_known": {}}
        for sw in ctx.live.values():
            for key, e in sw["residents"].items():
                if e["type"] == "profile":
                    call["running"].append({"task": "profile:" + e["name"], "worker": sw["wid"], "pool": sw["pool"],
                                            "end": 1 << 60, "demand": e["demand"]})
                    continue
                ends = []
                for tid in e["members"]:
                    t = ctx.task_objs.get(tid)
                    if t is not None and t._remaining_time is not None:
                        # expected end, weakest reading: the earlier of (now + remaining time) and
                        # (start + nominal runtime of the applied strategy).  With runtime variance
                        # the planners only know the nominal runtime.
                        end = sim_time.time + t._remaining_time.time
                        rr = ctx.tasks[tid]
                        if rr["starts"] and rr.get("expect_runtime") is not None:
                            end = min(end, max(sim_time.time, rr["starts"][-1] + rr["expect_runtime"]))
                        ends.append(end)
                call["running"].append({"task": str(key[0]) + ":" + ",".join(ctx.tasks[tid]["uname"] for tid in e["members"]),
                                        "worker": sw["wid"], "pool": sw["pool"],
                                        "end": max(ends) if ends else sim_time.time, "demand": e["demand"]})
        for tid, t in ctx.task_objs.items():
            r = ctx.tasks[tid]
            call["release_known"][tid] = r["released_at"] if r["released_at"] is not None else t._release_time.time
            if r["state"] == "SCHEDULED" and r["applied"] is not None and r["applied"].execution_strategy is not None:
                pl = r["applied"]
                # a placement whose time has passed is being retried every microsecond
                start = max(pl.placement_time.time, sim_time.time)
                call["scheduled"][tid] = {"task": r["uname"], "pool": pl.worker_pool_id, "worker": pl.worker_id,
                                          "planned": pl.placement_time.time,
                                          "start": start, "end": start + pl.execution_strategy.runtime.time,
                                          "demand": _demand(pl.execution_strategy)}
        call["digest_cluster"] = policymon.cluster_digest(worker_pools)
        call["digest_tasks"] = policymon.tasks_digest(workload)
        call["shadow"] = bool(getattr(ctx, "in_shadow", False))
        call["outer"] = ctx.current_schedule_call if call["shadow"] else None
        ctx.current_schedule_call = call

    @active
    def sched_after(ctx, ret, self, sim_time, workload, worker_pools):
        call = ctx.current_schedule_call
        if call is None:
            return
        ctx.current_schedule_call = call.get("outer")
        import workload as wl
        PT = wl.Placement.PlacementType
        pls = list(ret)
        call["runtime"] = ret.runtime.time
        call["n_placed"] = sum(1 for p in pls if p.placement_type == PT.PLACE_TASK and p.is_placed())
        call["n_unplaced"] = sum(1 for p in pls if p.placement_type == PT.PLACE_TASK and not p.is_placed())
        call["n_cancel"] = sum(1 for p in pls if p.placement_type == PT.CANCEL_TASK)
        call["placements"] = pls
        tag = "shadow_calls" if call["shadow"] else "schedule_calls"
        ctx.count(tag)
        ctx.count(tag + "_" + call["policy"])
        if call["running"] or call["scheduled"]:
            ctx.count(tag + "_busy")
        if policymon.cluster_digest(worker_pools) != call["digest_cluster"]:
            ctx.violate("C10", "side_effect_cluster", f"{call['policy']} at {call['t']} changed the live cluster")
        if policymon.tasks_digest(workload) != call["digest_tasks"]:
            ctx.violate("C10", "side_effect_tasks", f"{call['policy']} at {call['t']} changed task state")
        policymon.check_decision(call, pls, lambda kind, detail: ctx.violate(
            "C10", kind, f"{call['policy']} at t={call['t']}: {detail}",
            greedy=call["policy"] in ("EDFScheduler", "FIFOScheduler", "LSFScheduler"), policy=call["policy"],
            **_joint_facts(ctx, call, kind)))
        if call.get("input_infeasible"):
            ctx.count("schedule_calls_input_infeasible")
        for hook in ctx.opts.get("decision_hooks", ()):
            hook(ctx, call, self, sim_time, workload, worker_pools)
        for k in ("digest_cluster", "digest_tasks", "states", "outer"):
            call.pop(k, None)
        if call["shadow"]:
            return
        ctx.sched_calls.append(call)
        # the decision as the policy returned it (the boundary), kept apart from what Task.schedule() was told
        for p in pls:
            if p.placement_type in (PT.PLACE_TASK, PT.CANCEL_TASK) and p.task is not None:
                ctx.trec(p.task)["policy_decision"] = p
        if ctx.opts.get("shadow_policies"):
            _shadow_invocations(ctx, self, sim_time, workload, worker_pools)
    for cls in policymon.policy_classes():
        if "schedule" in cls.__dict__:
            wrap(cls, "schedule", before=sched_before, after=sched_after)

    @active
    def frontier_after(ctx, ret, self, time, lookahead=None, preemption=False, retract_schedules=False,
                       worker_pools=None, policy=None, branch_prediction_accuracy=0.5,
                       release_taskgraphs=False, debug=False):
        if ctx.sim is None or self is not ctx.sim._workload:
            return
        call = ctx.current_schedule_call
        if call is not None and call["offered"] is None:
            call["offered"] = list(ret)
        if getattr(ctx, "in_probe", False):
            return
        ctx.count("frontier_calls")
        la = 0 if lookahead is None else lookahead.time
        got = {id(t) for t in ret}
        now = time.time
        plan_ahead = la > 0 or release_taskgraphs
        for tid, t in ctx.task_objs.items():
            r = ctx.tasks[tid]
            st = t._state.name
            if st == "RELEASED" and tid not in got:
                ctx.violate("C18", "released_task_not_offered", f"{r['uname']} RELEASED at {r['released_at']} missing from offer at {now}")
            if tid in got:
                if st in ("COMPLETED", "CANCELLED"):
                    ctx.violate("C18", "finished_task_offered", f"{r['uname']} in state {st} offered at {now}")
                if st == "SCHEDULED" and not retract_schedules and not preemption:
                    ctx.violate("C18", "scheduled_task_offered", f"{r['uname']} SCHEDULED offered at {now} without retraction")
                if st == "RUNNING" and not preemption:
                    ctx.violate("C18", "running_task_offered", f"{r['uname']} RUNNING offered at {now} without preemption")
                if not plan_ahead:
                    ps = ctx.parents_of(r) or []
                    gd = ctx.graph_desc.get(r["gbase"])
                    if ps and gd is not None:
                        fin = [bool((ctx.rec_by_name(r["graph"], p) or {}).get("finishes")) for p in ps]
                        okp = any(fin) if gd["flags"][r["name"]]["terminal"] else all(fin)
                        if not okp:
                            ctx.violate("C18", "offered_before_parents_done",
                                        f"{r['uname']} ({st}) offered at {now} with lookahead 0; parents done={list(zip(ps, fin))}",
                                        zero_runtime_ancestors=_unfinished_ancestors_zero(ctx, r))
        if any(gd["flags"][ctx.tasks[tid]["name"]]["terminal"] or gd["flags"][ctx.tasks[tid]["name"]]["conditional"]
               for tid in got for gd in [ctx.graph_desc.get(ctx.tasks[tid]["gbase"])] if gd is not None and tid in ctx.tasks):
            ctx.count("frontier_calls_with_cond")
    wrap(wlmod.Workload, "get_schedulable_tasks", after=frontier_after)

    @active
    def releasable_after(ctx, ret, self):
        if ctx.sim is None:
            return
        got = sorted(t.unique_name for t in ret)
        exp = []
        for gname, tg in self.task_graphs.items():
            gd = ctx.graph_desc.get(gname.split("@")[0])
            if gd is None:
                return
            for t in tg.get_nodes():
                ps = gd["parents"].get(t.name, [])
                r = ctx.tasks.get(id(t))
                done = all((ctx.rec_by_name(gname, p) or {}).get("finishes") for p in ps)
                if t._state.name in ("VIRTUAL", "SCHEDULED", "PREEMPTED") and done:
                    exp.append(t.unique_name)
        ctx.count("releasable_calls")
        if got != sorted(exp):
            ctx.violate("C18", "releasable_tasks_mismatch", f"get_releasable_tasks returned {got}, expected {sorted(exp)}")
    wrap(wlmod.Workload, "get_releasable_tasks", after=releasable_after)

    @active
    def graph_releasable_after(ctx, ret, self):
        # the per-graph routine (what a workload update calls for the graphs it added)
        if ctx.sim is None or getattr(ctx, "in_probe", False):
            return
        gd = ctx.graph_desc.get(self.name.split("@")[0])
        if gd is None:
            return
        exp = []
        for t in self.get_nodes():
            ps = gd["parents"].get(t.name, [])
            done = all((ctx.rec_by_name(self.name, p) or {}).get("finishes") for p in ps)
            if t._state.name in ("VIRTUAL", "SCHEDULED", "PREEMPTED") and done:
                exp.append(t.unique_name)
        ctx.count("releasable_calls")
        got = sorted(t.unique_name for t in ret)
        if got != sorted(exp):
            ctx.violate("C18", "releasable_tasks_mismatch", f"{self.name}.get_releasable_tasks returned {got}, expected {sorted(exp)}")
    wrap(TaskGraph, "get_releasable_tasks", after=graph_releasable_after)

    # ---- utilization rows --------------------------------------------------------------
    @active
    def util_before(ctx, self, sim_time):
        ctx._util_n0 = len(ctx.csv)

    @active
    def util_after(ctx, ret, self, sim_time):
        if ctx.sim is None:
            return  # constructor call, cluster not registered yet
        rows = [r.split(",") for r in ctx.csv[ctx._util_n0:]]
        for p in rows:
            if len(p) < 6 or p[1] != "WORKER_POOL_UTILIZATION":
                continue
            ctx.count("utilization_rows")
            sws = ctx.live_pools.get(p[2])
            if sws is None:
                ctx.violate("C08", "utilization_unknown_pool", ",".join(p))
                continue
            cap = sum(sw["cap"].get(p[3], 0) for sw in sws)
            use = sum(_shadow_usage(sw).get(p[3], 0) for sw in sws)
            alloc, avail = int(p[4]), int(p[5])
            if alloc > cap or alloc < 0 or avail < 0:
                ctx.violate("C01", "utilization_row_over_capacity", f"row {p} capacity {cap}")
            if alloc != use or alloc + avail != cap or int(p[0]) != ctx.clock:
                ctx.violate("C08", "utilization_row", f"row {p} but shadow usage {use} capacity {cap} clock {ctx.clock}")
    wrap(Sim, "_Simulator__log_utilization", before=util_before, after=util_after)

    # closed-loop graphs added later
    @active
    def graph_completion_after(ctx, ret, self, task_graph, finish_time):
        for t in ret:
            tg = self._task_graphs.get(t.task_graph)
            if tg is not None and (t.task_graph,) not in getattr(ctx, "prob_snapshot", {}):
                ctx.prob_snapshot[(t.task_graph,)] = {x.name: x.probability for x in tg.get_nodes()}
                for x in tg.get_nodes():
                    ctx.trec(x)
        ctx.ev("GRAPH_DONE_NOTIFY", task_graph.name, released=[t.unique_name for t in ret])
    wrap(wlmod.Workload, "notify_task_graph_completion", after=graph_completion_after)


# ---------------------------------------------------------------------------
# per-method after-callbacks
# ---------------------------------------------------------------------------
def _transition(ctx, r, pre, post, via):
    ctx.count("transitions")
    if pre != r["state"]:
        # somebody wrote _state between mutators
        ctx.violate("C06", "state_written_outside_mutators", f"{r['uname']}: {r['state']} -> {pre} before {via}")
    if pre != post or via in ("schedule",):
        if (pre, post) not in LEGAL and not (pre == post and via in ("release",)):
            ctx.violate("C06", "illegal_transition", f"{r['uname']}: {pre} -> {post} via {via}")
        if pre in FINAL and post != pre:
            ctx.violate("C06", "left_final_state", f"{r['uname']}: {pre} -> {post} via {via}")
        if post == "VIRTUAL" and r.get("released_at") is not None:
            ctx.violate("C06", "released_task_back_to_virtual", f"{r['uname']}: released at {r['released_at']}, {pre} -> VIRTUAL via {via}")
        r["history"].append(post)
    # C06: "may fall back from SCHEDULED to its earlier state when a plan is skipped or retracted": the harness keeps its
    # own record of the state the task was in when the current scheduled episode began (RELEASED once a release was seen)
    if via == "schedule" and pre != "SCHEDULED":
        r["pre_sched"] = pre
    elif via == "release" and pre == "SCHEDULED":
        r["pre_sched"] = "RELEASED"
    elif via == "unschedule":
        ctx.count("unschedule_fallbacks_checked")
        want = r.get("pre_sched")
        if post == "SCHEDULED" or (want is not None and post != want):
            ctx.violate("C06", "unschedule_did_not_restore", f"{r['uname']}: unschedule left {post}, state before scheduling was {want}")
    r["state"] = post


def _after_release(ctx, r, task, a, k):
    t = task._release_time.time
    if r["released_at"] is None:
        r["released_at"] = t
    if t != ctx.clock:
        ctx.violate("C08", "release_time_not_clock", f"{r['uname']} release time {t} set at clock {ctx.clock}")
    r["release_calls"] = r.get("release_calls", 0) + 1
    r["release_clock"] = ctx.clock
    r["deadline_at_release"] = task._deadline.time
    ctx.ev("RELEASE", r["uname"], at=t)
    g = r["graph"]
    if g not in ctx.inflight:
        ctx.inflight[g] = "inflight"
        ctx.released_graphs.append((ctx.clock, g))


def _after_schedule(ctx, r, task, a, k):
    placement = a[1] if len(a) > 1 else k.get("placement")
    r["applied"] = placement
    r["applied_at"] = ctx.clock
    r["first_attempt_done"] = False
    if r["released_at"] is None or any(not (ctx.rec_by_name(r["graph"], p) or {}).get("finishes")
                                       for p in (ctx.parents_of(r) or [])):
        ctx.count("scheduled_ahead")
        ctx.flags_seen = getattr(ctx, "flags_seen", set()) | {"plan_ahead"}
    ctx.ev("SCHEDULE", r["uname"], at=placement.placement_time.time,
           runtime=(placement.execution_strategy.runtime.time if placement.execution_strategy else None))


def _after_unschedule(ctx, r, task, a, k):
    ctx.ev("UNSCHEDULE", r["uname"])
    ctx.count("unschedules")


def _after_preempt(ctx, r, task, a, k):
    ctx.running_due.pop(id(task), None)
    ctx.ev("PREEMPT", r["uname"])


def _after_start(ctx, r, task, a, k):
    t = ctx.clock
    arg = a[0] if a else k.get("time")
    if arg is not None and arg.time != ctx.clock:
        ctx.violate("C03", "start_time_not_clock", f"{r['uname']} start({arg.time}) at clock {ctx.clock}")
        t = arg.time
    ctx.count("starts")
    ctx.handler_started.add(id(task))
    # C02
    if r["starts"]:
        ctx.violate("C02", "started_twice", f"{r['uname']} started at {r['starts']} and {t}")
    if r["released_at"] is None:
        ctx.violate("C02", "start_before_release", f"{r['uname']} started at {t} but no release was observed")
    elif t < r["released_at"]:
        ctx.violate("C02", "start_before_release", f"{r['uname']} started at {t} < release {r['released_at']}")
    ps = ctx.parents_of(r)
    if ps is not None and ps:
        gd = ctx.graph_desc[r["gbase"]]
        fin = [(p, (ctx.rec_by_name(r["graph"], p) or {}).get("finishes")) for p in ps]
        if gd["flags"][r["name"]]["terminal"]:
            if not any(f for _, f in fin):
                ctx.violate("C02", "start_before_parents", f"join {r['uname']} started at {t}, no parent finished: {fin}")
        else:
            missing = [p for p, f in fin if not f]
            if missing:
                ctx.violate("C02", "start_before_parents", f"{r['uname']} started at {t}, unfinished parents {missing}")
        # C06: starved task must never start
        if _starved(ctx, r):
            ctx.violate("C06", "starved_task_started", f"{r['uname']} started at {t}")
    # C03(d): not earlier than the chosen time
    pl = r["applied"]
    if pl is None:
        ctx.violate("C03", "start_without_decision", f"{r['uname']} started at {t}")
    else:
        if t < pl.placement_time.time:
            ctx.violate("C03", "start_before_chosen_time", f"{r['uname']} started at {t} < chosen {pl.placement_time.time}")
        rt = pl.execution_strategy.runtime.time if pl.execution_strategy is not None else None
        r["expect_runtime"] = rt
        # ... and the decision the policy itself returned last for this task (boundary record)
        pd = r.get("policy_decision")
        if pd is not None:
            ctx.count("starts_vs_policy_decision")
            if pd.placement_type.name != "PLACE_TASK" or not pd.is_placed():
                ctx.violate("C03", "start_without_standing_decision", f"{r['uname']} started at {t} but the policy's last answer for it was {pd.placement_type.name} placed={pd.is_placed()}")
            else:
                if t < pd.placement_time.time:
                    ctx.violate("C03", "start_before_chosen_time", f"{r['uname']} started at {t} < policy's chosen {pd.placement_time.time}")
                if pd.execution_strategy is not None:
                    rt2 = pd.execution_strategy.runtime.time
                    if rt is not None and rt2 != rt:
                        ctx.violate("C03", "runs_other_strategy_than_decided",
                                    f"{r['uname']} policy decided runtime {rt2}, the task was told {rt}")
                    if r.get("strategy_runtime") is not None and r["strategy_runtime"] != rt2:
                        ctx.violate("C03", "placed_with_other_strategy",
                                    f"{r['uname']} policy decided runtime {rt2} but placed with strategy runtime {r['strategy_runtime']}")
                    r["expect_runtime"] = rt2
        if pl.execution_strategy is not None and r.get("strategy_runtime") is not None \
                and r["strategy_runtime"] != rt:
            ctx.violate("C03", "placed_with_other_strategy",
                        f"{r['uname']} decision runtime {rt} but placed with strategy runtime {r['strategy_runtime']}")
    r["starts"].append(t)
    # C03: the instant this execution is due to complete, as drawn by the task itself at start
    try:
        ctx.running_due[id(task)] = (r["uname"], t + task.remaining_time.time)
    except Exception:
        pass
    ctx.ev("START", r["uname"], at=t)


def _after_finish(ctx, r, task, a, k):
    t = ctx.clock
    ctx.running_due.pop(id(task), None)
    ctx.count("finishes")
    ct = task._completion_time.time if task._completion_time is not None else None
    if r["finishes"]:
        ctx.violate("C02", "finished_twice", f"{r['uname']} finished at {r['finishes']} and {t}")
    r["finishes"].append(t)
    ctx.ev("FINISH", r["uname"], at=t, completion_time=ct)
    if task._state.name != "COMPLETED":
        ctx.violate("C03", "finish_not_completed", f"{r['uname']} finish() left state {task._state.name}")
    if ct != t:
        ctx.violate("C03", "completion_time_not_clock", f"{r['uname']} completion_time {ct} but finished at clock {t}")
    if r["removed_at"] != t:
        ctx.violate("C03", "resources_release_time", f"{r['uname']} finished at {t} but resources released at {r['removed_at']}")
    if r["starts"] and r.get("expect_runtime") is not None:
        s, rt = r["starts"][-1], r["expect_runtime"]
        v = ctx.variance
        hi = s + rt + -(-rt * v // 100)
        if not (s + rt <= t <= hi):
            ctx.violate("C03", "runtime_inexact", f"{r['uname']} started {s} runtime {rt} variance {v}% finished {t} not in [{s + rt},{hi}]")
        ctx.count("completions_checked")
    g = r["graph"]


def _after_cancel(ctx, r, task, a, k):
    ctx.running_due.pop(id(task), None)
    r["cancelled_at"] = ctx.clock
    ctx.count("cancels")
    ctx.ev("CANCEL", r["uname"])


def _starved(ctx, r, memo=None):
    """Independent definition on the description graph and observed states."""
    gd = ctx.graph_desc.get(r["gbase"])
    if gd is None:
        return False
    memo = {} if memo is None else memo

    def dead(name):
        if name in memo:
            return memo[name]
        memo[name] = False
        rec = ctx.rec_by_name(r["graph"], name)
        if rec is not None and rec["state"] == "CANCELLED":
            memo[name] = True
            return True
        memo[name] = starved(name)
        return memo[name]

    def starved(name):
        ps = gd["parents"].get(name, [])
        if not ps:
            return False
        if gd["flags"][name]["terminal"]:
            return all(dead(p) for p in ps)
        return any(dead(p) for p in ps)

    return starved(r["name"])


def _shadow_policies(ctx, live):
    """fresh instances of the other bundled policies, created once per run."""
    pol = getattr(ctx, "_shadow_pols", None)
    if pol is not None:
        return pol
    import schedulers as S
    from utils import EventTime
    US = EventTime.Unit.US
    z = EventTime.zero()
    pol = []
    live_name = type(live).__name__
    greedy_run = live_name in ("EDFScheduler", "FIFOScheduler", "LSFScheduler", "ClockworkScheduler")
    for enf in (False, True):
        pol.append(("EDF", S.EDFScheduler(runtime=z, enforce_deadlines=enf)))
        pol.append(("FIFO", S.FIFOScheduler(runtime=z, enforce_deadlines=enf)))
    pol.append(("LSF", S.LSFScheduler(runtime=z)))
    if not greedy_run and getattr(live, "_batching", False):
        # a run of a batching planner: its states hold batches (tasks placed under a BatchStrategy that is none of their own
        # strategies).  Only the batching modes are defined on such states: shadow those, not the plain planners.
        la, retract = live.lookahead, bool(live.retract_schedules)
        pol.append(("ILP_batching", S.ILPScheduler(runtime=z, lookahead=la, enforce_deadlines=True, goal="max_goodput",
                                                   retract_schedules=retract, batching=True)))
        pol.append(("TetriSched_CPLEX_batching", S.TetriSchedCPLEXScheduler(
            runtime=z, lookahead=la, enforce_deadlines=True, retract_schedules=retract, goal="max_goodput", batching=True,
            time_discretization=EventTime(1, US), plan_ahead=EventTime(12, US), time_limit=EventTime(-1, EventTime.Unit.S))))
    elif not greedy_run:
        # planners need the worker id of running / scheduled tasks, which only planner-driven runs record
        # the state is reachable only under the live policy's frontier options: mirror them
        la, retract, rtg = live.lookahead, bool(live.retract_schedules), bool(live.release_taskgraphs)
        pol.append(("ILP_goodput", S.ILPScheduler(runtime=z, lookahead=la, enforce_deadlines=True, goal="max_goodput",
                                                  retract_schedules=retract, release_taskgraphs=rtg)))
        pol.append(("ILP_slack", S.ILPScheduler(runtime=z, lookahead=la, enforce_deadlines=False, goal="max_slack",
                                                retract_schedules=retract, release_taskgraphs=rtg)))
        pol.append(("TetriSched_Gurobi", S.TetriSchedGurobiScheduler(
            runtime=z, lookahead=la, enforce_deadlines=True, retract_schedules=retract, release_taskgraphs=rtg,
            goal="max_goodput", time_discretization=EventTime(2, US), plan_ahead=EventTime(10, US),
            time_limit=EventTime(-1, US))))
        if not rtg:
            pol.append(("TetriSched_CPLEX", S.TetriSchedCPLEXScheduler(
                runtime=z, lookahead=la, enforce_deadlines=True, retract_schedules=retract, goal="max_goodput",
                time_discretization=EventTime(1, US), plan_ahead=EventTime(8, US), time_limit=EventTime(-1, EventTime.Unit.S))))
        pol.append(("Z3", S.Z3Scheduler(runtime=z, lookahead=la, enforce_deadlines=False, goal="max_slack",
                                        retract_schedules=retract, release_taskgraphs=rtg)))
    for _, p in pol:
        p._logger.handlers.clear()
        p._logger.addHandler(logging.NullHandler())
        p._logger.setLevel(logging.CRITICAL)
    ctx._shadow_pols = pol
    return pol


SHADOW_CALL_BUDGET_S = int(os.environ.get("VERIF_SHADOW_CALL_S", "8"))


def _shadow_invocations(ctx, live, sim_time, workload, worker_pools):
    import random as _random
    state = _random.getstate()
    ctx.in_shadow = True
    try:
        for name, pol in _shadow_policies(ctx, live):
            noff = len(ctx.sched_calls[-1].get("offered") or [])
            if (name == "Z3" and noff > 4) or (name != "Z3" and not name.startswith(("EDF", "FIFO", "LSF")) and noff > 8):
                ctx.count("shadow_skipped_large")
                continue
            slow = ctx.__dict__.setdefault("_shadow_slow", {})
            if slow.get(name, 0) >= 2:
                ctx.count("shadow_skipped_slow")  # this planner was cut short twice on this world's states already
                continue
            budget = common.call_budget(SHADOW_CALL_BUDGET_S)
            try:
                with budget:
                    pol.schedule(sim_time, workload, worker_pools)
            except BaseException as e:  # noqa
                if isinstance(e, common.SolverAborted) and budget.fired:
                    # this one shadow solve took too long (wall-clock: tooling, never a verdict); the run goes on
                    ctx.current_schedule_call = None
                    ctx.count("shadow_calls_cut_short")
                    slow[name] = slow.get(name, 0) + 1
                    continue
                if isinstance(e, (KeyboardInterrupt, Watchdog, WallClock, common.SolverAborted)):
                    raise
                ctx.current_schedule_call = None
                if (type(e).__name__ == "GurobiError" and "size-limited" in str(e)) or type(e).__name__ == "DOcplexLimitsExceeded":
                    ctx.count("shadow_tooling_limit")
                    continue
                tb = traceback.extract_tb(e.__traceback__)
                frames = [f for f in tb if f.filename.startswith(common.REPO)]
                where = f"{os.path.relpath(frames[-1].filename, common.REPO)}:{frames[-1].name}" if frames else "?"
                ctx.violate("C10", f"schedule_raises:{type(e).__name__}@{where}",
                            f"shadow {name} at t={sim_time.time}: {type(e).__name__}: {str(e)[:200]}", shadow=name)
    finally:
        ctx.in_shadow = False
        ctx.current_schedule_call = None
        _random.setstate(state)


def _frontier_probes(ctx, sim, sim_time):
    """C18: extra frontier calls on the current state with a grid of lookaheads / switches /
    branch policies.  Results are checked and discarded; the random stream is restored."""
    import random as _random
    import workload as wl
    from utils import EventTime
    BP = wl.BranchPredictionPolicy
    state = _random.getstate()
    try:
        sim._workload.get_releasable_tasks()  # judged by the releasable hooks (read-only)
    except Exception as e:
        if isinstance(e, (Watchdog, WallClock, common.SolverAborted)):
            raise
        ctx.violate("C18", f"releasable_raises:{type(e).__name__}", str(e)[:200])
    ctx.in_probe = True
    try:
        wlobj = sim._workload
        now = sim_time.time
        offers = {}
        for pol in (BP.ALL, BP.WORST_CASE, BP.BEST_CASE, BP.MAXIMUM, BP.RANDOM):
            for retract in (False, True):
                for rtg in (False, True):
                    for la in (0, 1, 3, 10, 1000):
                        if pol == BP.RANDOM and (la not in (0, 10) or rtg):
                            continue
                        try:
                            res = wlobj.get_schedulable_tasks(sim_time, EventTime(la, EventTime.Unit.US), False, retract,
                                                               sim._worker_pools, pol, 0.5, rtg)
                        except Exception as e:
                            if isinstance(e, (Watchdog, WallClock, common.SolverAborted)):
                                raise  # the harness' own alarms are not the frontier's exceptions
                            ctx.violate("C18", f"frontier_raises:{type(e).__name__}",
                                        f"get_schedulable_tasks(t={now}, lookahead={la}, retract={retract}, rtg={rtg}, {pol.name}): {e}")
                            continue
                        ids = [id(t) for t in res]
                        ctx.count("frontier_probe_calls")
                        if len(ids) != len(set(ids)):
                            ctx.violate("C18", "task_offered_twice", f"t={now} la={la} retract={retract} rtg={rtg} {pol.name}")
                        got = set(ids)
                        offers[(pol.name, retract, rtg, la)] = got
                        for tid, t in ctx.task_objs.items():
                            st = t._state.name
                            r = ctx.tasks[tid]
                            if st == "RELEASED" and tid not in got:
                                ctx.violate("C18", "released_task_not_offered", f"probe t={now} la={la} retract={retract} rtg={rtg} {pol.name}: {r['uname']} missing")
                            if tid in got and st in ("COMPLETED", "CANCELLED"):
                                ctx.violate("C18", "finished_task_offered", f"probe t={now} la={la} {pol.name}: {r['uname']} in state {st}")
                            if tid in got and st == "RUNNING":
                                ctx.violate("C18", "running_task_offered", f"probe t={now} la={la} {pol.name}: {r['uname']}")
                            if tid in got and st == "SCHEDULED" and not retract:
                                ctx.violate("C18", "scheduled_task_offered", f"probe t={now} la={la} {pol.name}: {r['uname']} without retraction")
        names = {tid: ctx.tasks[tid]["uname"] for tid in ctx.task_objs}
        for (pol, retract, rtg, la), got in offers.items():
            if pol == "RANDOM":
                continue
            for la2 in (1, 3, 10, 1000):
                if la2 > la and (pol, retract, rtg, la2) in offers:
                    ctx.count("monotonicity_pairs")
                    miss = got - offers[(pol, retract, rtg, la2)]
                    if miss:
                        ctx.violate("C18", "lookahead_not_monotone",
                                    f"t={now} {pol} retract={retract} rtg={rtg}: offered at lookahead {la} but not at {la2}: {[names.get(m) for m in miss]}")
            if not rtg and (pol, retract, True, la) in offers:
                ctx.count("monotonicity_pairs")
                miss = got - offers[(pol, retract, True, la)]
                if miss:
                    ctx.violate("C18", "release_taskgraphs_not_monotone",
                                f"t={now} {pol} retract={retract} la={la}: offered without release_taskgraphs but not with it: {[names.get(m) for m in miss]}")
    finally:
        ctx.in_probe = False
        _random.setstate(state)


def _unfinished_ancestors_zero(ctx, r):
    """True iff the required predecessors of the task are complete or have nothing left to run
    (zero-runtime strategies all the way up): their estimated completion equals 'now'."""
    gd = ctx.graph_desc.get(r["gbase"])
    if gd is None:
        return False
    prof = {p["name"]: max(s["runtime"] for s in p["execution_strategies"]) for p in ctx.world["workload"]["profiles"]}
    wp = {n["name"]: n["work_profile"] for n in gd["desc"]["graph"]}

    def ready(p, seen):
        rec = ctx.rec_by_name(r["graph"], p)
        if rec is not None and rec["finishes"]:
            return True
        if (rec is not None and rec["state"] == "CANCELLED") or p in seen:
            return False
        if rec is not None and rec["state"] in ("SCHEDULED", "RUNNING"):
            t = ctx.task_objs.get(next(k for k, v in ctx.tasks.items() if v is rec))
            return t is not None and t._remaining_time is not None and t._remaining_time.time == 0
        return prof.get(wp[p], 1) == 0 and parents_ready(p, seen | {p})

    def parents_ready(name, seen):
        rs = [ready(p, seen) for p in gd["parents"].get(name, [])]
        return (any(rs) if gd["flags"][name]["terminal"] else all(rs)) if rs else True

    return parents_ready(r["name"], frozenset())


def _scan_states(ctx):
    for tid, task in ctx.task_objs.items():
        r = ctx.tasks[tid]
        cur = task._state.name
        if cur != r["state"]:
            ctx.violate("C06", "state_written_outside_mutators", f"{r['uname']}: {r['state']} -> {cur} (no mutator call)")
            if (r["state"], cur) not in LEGAL:
                ctx.violate("C06", "illegal_transition", f"{r['uname']}: {r['state']} -> {cur} via direct write")
            r["state"] = cur
            r["history"].append(cur)


def _joint_facts(ctx, call, kind):
    """mechanism facts for a joint-capacity report: is a colliding pair an ancestor / descendant pair of one task graph
    (description graph), and is a pending scheduled task in the way one whose planned start has passed"""
    if not kind.startswith("joint_capacity"):
        return {}
    jf = call.get("joint_facts") or {}
    names = jf.get("colliding", [])
    dep = False
    by_graph = {}
    for u in names:
        n, _, g = u.partition("@")
        by_graph.setdefault(g, []).append(n)
    for g, ns in by_graph.items():
        gd = ctx.graph_desc.get(g.split("@")[0])
        if gd is None or len(ns) < 2:
            continue

        def desc(a, seen=None):
            seen = set() if seen is None else seen
            for c in gd["children"].get(a, []):
                if c not in seen:
                    seen.add(c)
                    desc(c, seen)
            return seen
        for a in ns:
            if desc(a) & (set(ns) - {a}):
                dep = True
    return {"dependent_pair_collides": dep, "deferred_pending": bool(jf.get("deferred_pending")),
            "retracting": bool(call.get("retracting"))}


def _loaded_profile_check(ctx, sim, event):
    """C01, decision recorded at the boundary: once the simulator has applied a LOAD_WORK_PROFILE decision, the profile
    occupies on that worker exactly what the decided loading strategy demands (per resource name, read from the ledger)."""
    pl = event.placement
    if pl is None or pl.worker_id is None or pl.loading_strategy is None:
        return
    pool = sim._worker_pools.get_worker_pool(pl.worker_pool_id)
    w = next((x for x in pool.workers if x.id == pl.worker_id), None) if pool is not None else None
    if w is None:
        return
    ctx.count("applied_profile_loads_judged")
    want, got = {}, {}
    for res, q in pl.loading_strategy.resources.resources:
        if q:
            want[res.name] = want.get(res.name, 0) + q
    try:
        for res, q in w.resources.get_allocated_resources(pl.work_profile):
            if q:
                got[res.name] = got.get(res.name, 0) + q
    except Exception as e:  # noqa
        got = {"<error>": f"{type(e).__name__}: {e}"}
    if got != want:
        ctx.violate("C01", "profile_holds_other_than_its_loading_strategy",
                    f"t={ctx.clock}: {pl.work_profile.name} loaded on {w.name} with a strategy that demands {want}; the ledger holds {got} for it")


def _idle_capacity_check(ctx):
    """C04 e2e: no resident and no profile on a worker => ledger back at full capacity."""
    if ctx.sim is None:
        return
    import workload as wl
    for sw in ctx.live.values():
        # C01 / C04: every task a live worker lists as placed (and therefore steps) is one whose place_task() the harness saw
        # return, i.e. one that holds resources there; every profile it lists likewise
        w = sw["obj"]
        ctx.count("worker_table_checks")
        members = {tid for key, ent in sw["residents"].items() if ent["type"] != "profile" for tid in ent["members"]}
        for t in w.get_placed_tasks():
            if id(t) not in members:
                ctx.violate("C01", "task_listed_without_allocation",
                            f"{sw['name']} lists {t.unique_name} ({t.state.name}) as placed but no successful place_task() put it there")
        known_profiles = {key[1] for key, ent in sw["residents"].items() if ent["type"] == "profile"}
        for pr in list(w.get_available_profiles()) + list(w.get_pending_profiles()):
            if id(pr) not in known_profiles:
                ctx.violate("C01", "profile_resident_without_allocation",
                            f"{sw['name']} lists profile {pr.name} as loading/loaded but no successful load_profile() reserved its resources")
        if sw["residents"]:
            continue
        ctx.count("idle_capacity_checks")
        for n, cap in sw["cap"].items():
            res = wl.Resource(name=n, _id="any")
            av = w.resources.get_available_quantity(res)
            if av != cap:
                ctx.violate("C04", "idle_worker_not_full", f"{sw['name']} idle but {n}: available {av} != capacity {cap}")
        if w.get_placed_tasks():
            ctx.violate("C04", "ghost_resident", f"{sw['name']}: shadow empty but worker reports {len(w.get_placed_tasks())} placed tasks")


def _placement_attempt_before(ctx, event):
    task = event.task
    r = ctx.trec(task)
    pl = event.placement
    ctx.count("placement_attempts")
    att = {"task": r["uname"], "t": ctx.clock, "first": False, "ready": None, "fits": None}
    ctx._attempt = att
    if r["state"] != "SCHEDULED":
        return
    if r["applied"] is not pl:
        # a stale event: the decision was changed but the queued event still carries the old one
        att["stale"] = True
    if pl.placement_time.time == ctx.clock and not r["first_attempt_done"]:
        att["first"] = True
    r["first_attempt_done"] = True
    ps = ctx.parents_of(r) or []
    gd = ctx.graph_desc.get(r["gbase"])
    fin = [bool((ctx.rec_by_name(r["graph"], p) or {}).get("finishes")) for p in ps]
    if gd is not None and ps:
        att["ready"] = any(fin) if gd["flags"][r["name"]]["terminal"] else all(fin)
    else:
        att["ready"] = True
    if r["released_at"] is None:
        att["ready"] = False
    sws = ctx.live_pools.get(pl.worker_pool_id, [])
    if pl.execution_strategy is not None:
        import workload as wl
        d = _request(pl.execution_strategy)
        cands = [sw for sw in sws if pl.worker_id is None or sw["wid"] == pl.worker_id]
        fits = any(_shadow_fits(sw, d) for sw in cands)
        if isinstance(pl.execution_strategy, wl.BatchStrategy):
            fits = fits or any(("batch", id(pl.execution_strategy)) in sw["residents"] for sw in cands)
        att["fits"] = fits


def _placement_attempt_after(ctx, event):
    att = getattr(ctx, "_attempt", None)
    if att is None:
        return
    started = id(event.task) in ctx.handler_started
    att["started"] = started
    if att["ready"] is False:
        ctx.count("attempt_not_ready")
        ctx.flags_seen = getattr(ctx, "flags_seen", set()) | {"not_ready"}
        if started:
            pass  # C02 already flags this at start
    elif att["ready"] and att["fits"] is False:
        ctx.count("attempt_worker_not_ready")
        ctx.flags_seen = getattr(ctx, "flags_seen", set()) | {"worker_not_ready"}
    elif att["ready"] and att["fits"] and not started:
        if att["first"]:
            ctx.violate("C03", "not_started_at_chosen_time",
                        f"{att['task']} ready and fits at chosen time {att['t']} but was not started")
        else:
            ctx.count("late_attempt_not_started")
    if att["first"] and started:
        ctx.count("started_at_chosen_time")
    ctx._attempt = None


# ---------------------------------------------------------------------------
# running a world
# ---------------------------------------------------------------------------
def _alarm(signum, frame):
    common.alarm_fired()  # a raise inside a solver callback is swallowed: the solver guard then ends the solve (common.py)
    raise WallClock("wall-clock alarm")


def run_world(world, workdir, opts=None, extra_install=None, wall_s=None):
    """Run one world in-process.  Returns the Ctx (with .status set)."""
    global _ACTIVE
    from absl import flags as absl_flags
    install()
    common.install_solver_guard()
    if extra_install is not None:
        extra_install()
    import main as repo_main

    opts = opts or {}
    argv, paths = worldgen.write_world(world, workdir)
    # logs: never write a log file; stdout of workers is a sink
    argv = [a for a in argv if not a.startswith("--log_file_name")]
    ctx = Ctx(world, opts)
    ctx.paths = paths
    common.reset_repo_globals()
    csv_path = paths["csv"] if opts.get("write_csv", True) else None
    shared = common.ListHandler(ctx.csv)
    handlers = [shared]
    if csv_path:
        fh = logging.FileHandler(csv_path, mode="w")
        fh.setFormatter(logging.Formatter("%(message)s"))
        handlers.append(fh)
    for lname in ("Simulator_CSV", "main_CSV"):
        lg = logging.getLogger(lname)
        lg.propagate = False
        lg.setLevel(logging.DEBUG)
        for h in handlers:
            lg.addHandler(h)
    FLAGS = absl_flags.FLAGS
    FLAGS.unparse_flags()
    FLAGS(argv)
    _ACTIVE = ctx
    t0 = time.time()
    old = signal.signal(signal.SIGALRM, _alarm)
    # generous: the alarm only bounds a run that the logical watchdogs cannot see (a solver call that never returns);
    # on a loaded machine a planner world can take many times its idle wall time
    signal.alarm(wall_s or int(os.environ.get("VERIF_WALL_S", "300")))
    try:
        repo_main.main([])
        ctx.status = "ended" if ctx.ended else "returned_without_end"
    except Watchdog as e:
        ctx.status = "watchdog"
        ctx.exception = str(e)
    except (WallClock, common.SolverAborted) as e:
        ctx.status = "wallclock"
        ctx.exception = str(e)
    except common.MonitorViolation as e:
        ctx.status = "monitor_abort"
        ctx.exception = str(e)
    except BaseException as e:  # noqa
        if isinstance(e, KeyboardInterrupt):
            raise
        ctx.status = "exception"
        tb = traceback.extract_tb(e.__traceback__)
        frames = [f for f in tb if f.filename.startswith(common.REPO)]
        where = f"{os.path.relpath(frames[-1].filename, common.REPO)}:{frames[-1].name}" if frames else "?"
        ctx.exception = f"{type(e).__name__} at {where}: {str(e)[:300]}"
        ctx.exc_type, ctx.exc_where = type(e).__name__, where
        if (type(e).__name__ == "GurobiError" and "size-limited" in str(e)) or \
                type(e).__name__ == "DOcplexLimitsExceeded":
            # the solver licence on this machine, not the repository: tooling-inconclusive
            ctx.status = "tooling_limit"
    finally:
        signal.alarm(0)
        signal.signal(signal.SIGALRM, old)
        common.alarm_cleared()
        _ACTIVE = None
        for h in handlers:
            try:
                h.close()
            except Exception:
                pass
        common.reset_logging()
    ctx.wall = time.time() - t0
    if opts.get("finalize", True):
        from . import e2e_final
        e2e_final.finalize(ctx)
    return ctx
