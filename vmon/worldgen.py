"""Seeded generator of *worlds*: (cluster description, workload description, flags).

A world is a pure function of (seed, index, profile) and is written out as the
project's own input files (YAML or JSON + an absl flag list), so the real
loaders, flags, policies and simulator are exercised.

The generator keeps the description it wrote: monitors use it as ground truth
(capacities for the shadow cluster, graph structure, release parameters).
"""
import json
import os
import random

import yaml

from .common import seed_int, case_hash

GREEDY = ("EDF", "FIFO", "LSF")
PLANNERS = ("ILP", "TetriSched_Gurobi", "TetriSched_CPLEX")
ALL_POLICIES = GREEDY + PLANNERS + ("Clockwork",)

PROB_SETS = {
    2: [(0.5, 0.5), (0.25, 0.75), (0.75, 0.25), (1.0, 0.0), (0.0, 1.0), (0.125, 0.875)],
    3: [(0.25, 0.25, 0.5), (0.5, 0.25, 0.25), (0.0, 0.5, 0.5), (1.0, 0.0, 0.0),
        (0.125, 0.375, 0.5), (0.5, 0.5, 0.0), (0.5, 0.0, 0.5), (0.0, 0.0, 1.0), (0.0, 1.0, 0.0),
        (0.25, 0.75, 0.0), (0.75, 0.0, 0.25)],
    4: [(0.25, 0.25, 0.25, 0.25), (0.5, 0.0, 0.5, 0.0), (0.0, 0.25, 0.75, 0.0), (0.125, 0.125, 0.25, 0.5),
        (0.0, 0.0, 0.0, 1.0), (0.25, 0.25, 0.5, 0.0)],
}
for _k, _v in PROB_SETS.items():
    for _p in _v:
        assert sum(_p) == 1.0, _p


# ---------------------------------------------------------------------------
# graph shapes.  A graph is a list of node dicts: {name, children, [conditional],
# [terminal], [probability]} in the loader's own format.
# ---------------------------------------------------------------------------
def _node(name, children=(), **kw):
    d = {"name": name}
    if children:
        d["children"] = list(children)
    d.update(kw)
    return d


def _chain(names):
    return [_node(n, [names[i + 1]] if i + 1 < len(names) else []) for i, n in enumerate(names)]


def _random_dag(rng, names, max_parents=2, p_source=0.25):
    children = {n: [] for n in names}
    for j in range(1, len(names)):
        if rng.random() < p_source:
            continue
        k = rng.randint(1, min(max_parents, j))
        for p in rng.sample(names[:j], k):
            children[p].append(names[j])
    return [_node(n, children[n]) for n in names]


class _Namer:
    def __init__(self, prefix):
        self.prefix, self.i = prefix, 0

    def __call__(self):
        self.i += 1
        return f"{self.prefix}{self.i}"


def _cond_block(rng, namer, depth, budget, branch_dag=False, blocks=None, allow_empty=False):
    """Returns (nodes, entry_name, exit_name). entry is conditional, exit terminal.
    `blocks` collects {cond, terminal, branches:[{entry, exit, nodes}]} for the monitors."""
    c, t = namer() + "c", namer() + "t"
    blk = {"cond": c, "terminal": t, "branches": []}
    nb = rng.choice([2, 2, 3, 3, 4])
    probs = rng.choice(PROB_SETS[nb])
    nodes, c_children = [], []
    empty_used = False
    for b in range(nb):
        blen = rng.randint(1, 2)
        if allow_empty and not empty_used and rng.random() < 0.2:
            # an EMPTY branch: the conditional is wired straight to its join ("if .. then A else nothing")
            empty_used = True
            c_children.append(t)
            empty_prob = probs[b]
            blk["branches"].append({"entry": t, "exit": c, "nodes": [], "empty": True})
            continue
        branch_nodes = []
        first = None
        prev_exit = None
        for s in range(blen):
            if depth > 0 and budget[0] > 6 and rng.random() < 0.35:
                budget[0] -= 4
                sub, sin, sout = _cond_block(rng, namer, depth - 1, budget, branch_dag, blocks)
                branch_nodes += sub
                cur_in, cur_out = sin, sout
            else:
                n = namer()
                budget[0] -= 1
                branch_nodes.append(_node(n))
                cur_in = cur_out = n
            if first is None:
                first = cur_in
            else:
                _find(branch_nodes + nodes, prev_exit).setdefault("children", []).append(cur_in)
            prev_exit = cur_out
        if branch_dag and rng.random() < 0.35 and not _find(branch_nodes, first).get("conditional"):
            # an ASYMMETRIC branch DAG: two paths of different length from the entry re-join through ordinary nodes, and one
            # node hangs below the longer path only:  first -> a -> m ;  first -> b -> b2 -> {m, side} ;  m -> x ; side -> x
            na, nb, b2, m, side, x = (namer() for _ in range(6))
            budget[0] -= 6
            branch_nodes += [_node(na, [m]), _node(nb, [b2]), _node(b2, [m, side]), _node(m, [x]), _node(side, [x]), _node(x)]
            _find(branch_nodes, first).setdefault("children", []).extend([na, nb])
            _find(branch_nodes + nodes, prev_exit).setdefault("children", []).append(x) if prev_exit != first else None
            prev_exit = x
        elif branch_dag and rng.random() < 0.7 and not _find(branch_nodes, first).get("conditional"):
            # the branch becomes a small DAG with ONE entry and ONE exit (the join
            # is released by any one parent, so each branch must reach it through a
            # single edge): entry -> {.., extra} -> new exit.
            extra, nexit = namer(), namer()
            budget[0] -= 2
            branch_nodes.append(_node(extra, [nexit]))
            branch_nodes.append(_node(nexit))
            _find(branch_nodes, first).setdefault("children", []).append(extra)
            _find(branch_nodes + nodes, prev_exit).setdefault("children", []).append(nexit)
            prev_exit = nexit
        _find(branch_nodes, prev_exit).setdefault("children", []).append(t)
        _find(branch_nodes, first)["probability"] = probs[b]
        c_children.append(first)
        blk["branches"].append({"entry": first, "exit": prev_exit,
                                "nodes": [n["name"] for n in branch_nodes]})
        nodes += branch_nodes
    nodes.insert(0, _node(c, c_children, conditional=True))
    nodes.append(_node(t, [], terminal=True))
    if empty_used:
        nodes[-1]["probability"] = empty_prob
    if blocks is not None:
        blocks.append(blk)
    return nodes, c, t


def _find(nodes, name):
    for n in nodes:
        if n["name"] == name:
            return n
    raise KeyError(name)


def gen_graph(rng, gname, max_nodes=8, shapes=None, allow_cond=True):
    shapes = shapes or ["single", "chain", "fork", "join", "diamond", "random", "random",
                        "cond", "cond", "cond_nested", "multi_cond", "cond_dag", "cond_open"]
    if not allow_cond:
        shapes = [s for s in shapes if not s.startswith("cond") and s != "multi_cond"]
    if max_nodes <= 5:
        shapes = [sh for sh in shapes if sh not in ("multi_cond", "cond_nested", "cond_dag")] or shapes
    shape = rng.choice(shapes)
    namer = _Namer("n")
    blocks = []
    if shape == "single":
        nodes = [_node(namer())]
    elif shape == "chain":
        nodes = _chain([namer() for _ in range(rng.randint(2, min(5, max_nodes)))])
    elif shape == "fork":
        root = namer()
        kids = [namer() for _ in range(rng.randint(2, 3))]
        nodes = [_node(root, kids)] + [_node(k) for k in kids]
    elif shape == "join":
        srcs = [namer() for _ in range(rng.randint(2, 3))]
        sink = namer()
        nodes = [_node(s, [sink]) for s in srcs] + [_node(sink)]
    elif shape == "diamond":
        a, b, c, d = namer(), namer(), namer(), namer()
        nodes = [_node(a, [b, c]), _node(b, [d]), _node(c, [d]), _node(d)]
        if rng.random() < 0.5:
            e = namer()
            _find(nodes, d)["children"] = [e]
            nodes.append(_node(e))
        if rng.random() < 0.3:
            _find(nodes, a)["children"].append(d)  # skip edge
    elif shape == "random":
        nodes = _random_dag(rng, [namer() for _ in range(rng.randint(3, max_nodes))])
    elif shape == "cond_open":
        # a conditional whose branches never re-join: no terminal task, every branch ends in a sink of its own
        c = namer() + "c"
        nb = rng.choice([2, 2, 3])
        probs = rng.choice(PROB_SETS[nb])
        nodes, kids = [], []
        blk = {"cond": c, "terminal": None, "branches": [], "open": True}
        for b in range(nb):
            chain = [namer() for _ in range(rng.randint(1, 3))]
            nodes += _chain(chain)
            _find(nodes, chain[0])["probability"] = probs[b]
            kids.append(chain[0])
            blk["branches"].append({"entry": chain[0], "exit": chain[-1], "nodes": list(chain)})
        nodes.insert(0, _node(c, kids, conditional=True))
        if rng.random() < 0.6:
            pre = namer()
            nodes.insert(0, _node(pre, [c]))
        blocks.append(blk)
    else:
        budget = [max_nodes + (4 if max_nodes > 5 else 0)]
        depth = 1 if shape == "cond_nested" else 0
        nodes, cin, cout = _cond_block(rng, namer, depth, budget, branch_dag=(shape == "cond_dag"),
                                       blocks=blocks, allow_empty=(shape == "cond_empty"))
        if rng.random() < 0.6:
            pre = namer()
            nodes.insert(0, _node(pre, [cin]))
        if rng.random() < 0.6:
            post = namer()
            _find(nodes, cout)["children"] = [post]
            nodes.append(_node(post))
            cout = post
        if shape == "multi_cond":
            # conditionals in sequence: each further block hangs below the previous block's join (or the node after it);
            # sometimes a plain node sits between two blocks, sometimes the later block is itself nested
            for extra, prefix in enumerate(("m", "k")[:rng.choice([1, 1, 2])]):
                nm = _Namer(prefix)
                nodes2, cin2, cout2 = _cond_block(rng, nm, 1 if rng.random() < 0.25 else 0, [6], blocks=blocks)
                prev = _find(nodes, cout)
                if prev.get("terminal") and not prev.get("children") and rng.random() < 0.5:
                    # the join of the previous conditional IS the next conditional (one node, both flags)
                    head = _find(nodes2, cin2)
                    nodes2.remove(head)
                    prev["conditional"] = True
                    prev["children"] = list(head["children"])
                    blocks[-1]["cond"] = cout
                    blocks[-1]["fused_with_previous_join"] = True
                else:
                    prev.setdefault("children", []).append(cin2)
                nodes += nodes2
                cout = cout2
                if rng.random() < 0.4:
                    mid = nm()
                    _find(nodes, cout)["children"] = [mid]
                    nodes.append(_node(mid))
                    cout = mid
    return shape, nodes, blocks


# ---------------------------------------------------------------------------
# cluster
# ---------------------------------------------------------------------------
def gen_cluster(rng, max_pools=3, max_workers=3, types=("CPU", "GPU"), multi_instance=0.25,
                max_q=4, repeat_anonymous=0.0):
    pools = []
    ntypes = rng.randint(1, len(types))
    used_types = list(types[:ntypes])
    for p in range(rng.randint(1, max_pools)):
        workers = []
        for w in range(rng.randint(1, max_workers)):
            res = []
            for t in used_types:
                if len(res) > 0 and rng.random() < 0.3:
                    continue  # heterogeneous: this worker lacks the type
                if rng.random() < multi_instance:
                    for inst in ("a", "b"):
                        res.append({"name": f"{t}:{inst}", "quantity": rng.randint(1, max(1, max_q // 2))})
                elif repeat_anonymous and rng.random() < repeat_anonymous:
                    # the one-entry-per-unit style of the bundled worker profiles: the same name several times, no id
                    for _ in range(rng.randint(2, 4)):
                        res.append({"name": t, "quantity": rng.randint(1, 2)})
                else:
                    res.append({"name": t, "quantity": rng.randint(1, max_q)})
            workers.append({"name": f"W_{p}_{w}", "resources": res})
        pools.append({"name": f"Pool_{p}", "workers": workers})
    return pools


def worker_capacity(worker_desc):
    """{type name: total quantity} of one worker description."""
    cap = {}
    for r in worker_desc["resources"]:
        cap[r["name"].split(":")[0]] = cap.get(r["name"].split(":")[0], 0) + r["quantity"]
    return cap


def all_workers(cluster):
    return [w for p in cluster for w in p["workers"]]


# ---------------------------------------------------------------------------
# profiles
# ---------------------------------------------------------------------------
def gen_strategy(rng, cluster, runtimes, feasible=True, batch_size=1, specific_ids=0.0):
    workers = all_workers(cluster)
    w = rng.choice(workers)
    cap = worker_capacity(w)
    req = {}
    names = list(cap)
    rng.shuffle(names)
    k = rng.randint(1, len(names))
    for n in names[:k]:
        hi = cap[n] if feasible else cap[n] + rng.randint(1, 2)
        lo = 1 if feasible else cap[n] + 1
        req[f"{n}:any"] = rng.randint(lo, hi)
    if feasible and specific_ids > 0 and rng.random() < specific_ids:
        # name one instance explicitly (alone, or next to an 'any' request of the same type)
        inst = [r for r in w["resources"] if ":" in r["name"] and r["quantity"] > 0]
        if inst:
            r = rng.choice(inst)
            n = r["name"].split(":")[0]
            if f"{n}:any" in req and req[f"{n}:any"] > 1 and rng.random() < 0.5:
                req[f"{n}:any"] -= 1
                req[r["name"]] = 1
            elif f"{n}:any" in req:
                q = min(req.pop(f"{n}:any"), r["quantity"])
                req[r["name"]] = q
    return {"batch_size": batch_size, "runtime": rng.choice(runtimes), "resource_requirements": req}


def strategy_fits_empty(strategy, cluster):
    """instance-aware: specific ids from their instance, 'any' from the rest."""
    for w in all_workers(cluster):
        inst = {}
        for k, r in enumerate(w["resources"]):
            parts = r["name"].split(":")
            inst[(parts[0], parts[1] if len(parts) > 1 else f"#{k}")] = r["quantity"]
        ok = True
        req = strategy["resource_requirements"]
        for name in {k.split(":")[0] for k in req}:
            spec = 0
            for k, q in req.items():
                n, i = k.split(":")
                if n == name and i != "any":
                    if inst.get((n, i), 0) < q:
                        ok = False
                    spec += q
            anyq = sum(q for k, q in req.items() if k.split(":")[0] == name and k.endswith(":any"))
            if anyq + spec > sum(v for (n, i), v in inst.items() if n == name):
                ok = False
        if ok:
            return True
    return False


# ---------------------------------------------------------------------------
# the world
# ---------------------------------------------------------------------------
RUNTIMES_DEFAULT = [1, 1, 2, 2, 3, 3, 4, 5, 6, 7, 8, 9]


def gen_clockwork_world(seed, index, **over):
    """Model-serving worlds for the Clockwork policy: shared models with loading
    strategies and several batch-size strategies, bursty request arrivals."""
    rng = random.Random(seed_int("world", seed, index, "clockwork"))
    cluster = []
    for p in range(rng.randint(1, 2)):
        workers = []
        for w in range(rng.randint(1, 2)):
            workers.append({"name": f"W_{p}_{w}", "resources": [
                {"name": "GPU", "quantity": rng.randint(1, 2)},
                {"name": "RAM", "quantity": rng.randint(3, 8)}]})
        cluster.append({"name": f"Pool_{p}", "workers": workers})
    nmodels = rng.randint(1, 3) if not over.get("tied") else rng.randint(2, 3)
    if over.get("tight_memory"):
        nmodels = 3 + (index % 2)
    profiles = []
    for m in range(nmodels):
        sizes = rng.choice([[1], [1, 2], [1, 2, 4], [2, 4], [1, 4]])
        base = rng.randint(1, 4)
        ex = []
        for b in sizes:
            ex.append({"batch_size": b, "runtime": base + {1: 0, 2: rng.randint(1, 2), 4: rng.randint(2, 4)}[b],
                       "resource_requirements": {"GPU:any": 1}})
        if over.get("exec_needs_ram"):
            # batches then compete with model loads for the same memory: a load and a batch decided in one invocation may
            # not both fit when they are applied, and the batch's placement is retried by the simulator
            for e in ex:
                e["resource_requirements"]["RAM:any"] = 1
        # the order in which a model lists its strategies is free: smallest batch first (as drawn), largest first, shuffled
        lrng = random.Random(seed_int("strategy-listing", seed, index, m))
        how = lrng.choice(["asis", "asis", "reversed", "reversed", "shuffled"])
        if how == "reversed":
            ex.reverse()
        elif how == "shuffled":
            lrng.shuffle(ex)
        profiles.append({"name": f"M{m}",
                         "loading_strategies": [{"batch_size": 1, "runtime": rng.randint(0, 3),
                                                 "resource_requirements": {"RAM:any": rng.randint(1, 3)}}],
                         "execution_strategies": ex})
        if lrng.random() < 0.4:
            # a second way to load the model: more memory, loads faster (or the other way round)
            first = profiles[-1]["loading_strategies"][0]
            more = lrng.random() < 0.5
            profiles[-1]["loading_strategies"].append(
                {"batch_size": 1, "runtime": max(0, first["runtime"] + (-1 if more else 2)),
                 "resource_requirements": {"RAM:any": max(1, first["resource_requirements"]["RAM:any"] + (2 if more else -1))}})
            if lrng.random() < 0.5:
                profiles[-1]["loading_strategies"].reverse()
    graphs = []
    if over.get("tight_memory"):
        # memory for one or two models at a time only: the policy has to evict to serve the other models
        need = max(max(ls["resource_requirements"]["RAM:any"] for ls in p["loading_strategies"]) for p in profiles)
        trng = random.Random(seed_int("tight-memory", seed, index))
        for pool in cluster:
            for wkr in pool["workers"]:
                for r in wkr["resources"]:
                    if r["name"] == "RAM":
                        r["quantity"] = need + trng.choice([0, 1, 2])
    for g in range((rng.randint(1, 3) if not over.get("tight_memory") else nmodels) if not over.get("tied") else nmodels):
        model = rng.choice(profiles)["name"] if not (over.get("tied") or over.get("tight_memory")) else profiles[g]["name"]
        if rng.random() < 0.25:
            nodes = [_node("n1", ["n2"], work_profile=model), _node("n2", work_profile=rng.choice(profiles)["name"])]
            shape = "chain"
        else:
            nodes = [_node("n1", work_profile=model)]
            shape = "single"
        pol = rng.choice(["fixed", "fixed", "poisson", "closed_loop"])
        gd = {"name": f"G{g}", "graph": nodes, "release_policy": pol, "shape": shape, "blocks": []}
        inv = rng.randint(2, over.get("max_invocations", 8))
        if rng.random() < 0.4:
            gd["start"] = rng.randint(0, 4)
        if pol == "fixed":
            gd["period"] = rng.choice([0, 0, 1, 1, 2, 4])
            gd["invocations"] = inv
        elif pol == "poisson":
            gd["rate"] = rng.choice([0.5, 1.0, 2.0])
            gd["invocations"] = inv
        else:
            gd["concurrency"] = rng.randint(1, 4)
            gd["invocations"] = inv
        gd["deadline_variance"] = list(rng.choice([(0, 0), (50, 100), (100, 300), (200, 600), (500, 500)]))
        graphs.append(gd)
    if over.get("tied"):
        # requests of different models arriving together with equal deadlines: same release pattern, fixed stretch, and
        # models of equal runtime so that the stretched deadlines coincide
        for gd in graphs:
            gd["release_policy"] = "fixed"
            gd["period"] = graphs[0].get("period", 1) if graphs[0].get("release_policy") == "fixed" else 1
            gd["invocations"] = graphs[0]["invocations"]
            gd["start"] = 0
            gd.pop("rate", None)
            gd.pop("concurrency", None)
            gd["deadline_variance"] = [200, 200]
            gd["graph"] = [_node("n1", work_profile=gd["graph"][0]["work_profile"])]
        for prof in profiles[1:]:
            prof["execution_strategies"] = [dict(e) for e in profiles[0]["execution_strategies"]]
            prof["loading_strategies"] = [dict(e) for e in profiles[0]["loading_strategies"]]  # equal in every respect
        for prof in profiles:
            for ls in prof["loading_strategies"]:
                ls["runtime"] = 0  # resident from the first instant: the requests must be servable for ties to matter
    if over.get("runtime_scale"):
        for prof in profiles:
            for e in prof["execution_strategies"]:
                e["runtime"] *= over["runtime_scale"]
    if over.get("small_burst"):
        # a burst small enough for the size-limited solver licences: one worker, one or two models, three to five requests
        # per model released together with equal deadlines and not enough room to run them all at once (used with the
        # batching planners, whose candidate batches are formed from sets of tasks)
        cluster = [{"name": "Pool_0", "workers": [{"name": "W_0_0", "resources": [{"name": "GPU", "quantity": 1},
                                                                                     {"name": "RAM", "quantity": 8}]}]}]
        burst = random.Random(seed_int("burst", seed, index))
        profiles = profiles[:burst.choice([1, 1, 2])]
        graphs = graphs[:len(profiles)]
        while len(graphs) < len(profiles):
            graphs.append({"name": f"G{len(graphs)}", "graph": [], "shape": "single", "blocks": []})
        for g, gd in enumerate(graphs):
            gd["release_policy"] = "fixed"
            # all at once, or (own draws, later additions) a trickle / a second burst that arrives while the first is planned
            gd["period"] = burst.choice([0, 0, 2])
            gd["invocations"] = burst.randint(3, 4) if len(profiles) == 1 else 3
            gd["start"] = 0 if g == 0 else burst.choice([0, 3, 6])
            gd.pop("rate", None)
            gd.pop("concurrency", None)
            # equal deadlines, or (half of the worlds) deadlines that differ between the requests of one burst
            gd["deadline_variance"] = burst.choice([[300, 300], [100, 400], [20, 150], [20, 150]])
            gd["graph"] = [_node("n1", work_profile=profiles[g]["name"])]
        if over.get("burst_equal"):
            # one burst, equal deadlines: what is placed first is decided by the order of a set of equals
            for gd in graphs:
                gd["period"], gd["start"], gd["deadline_variance"] = 0, 0, [300, 300]
        for prof in profiles:
            if all(e["batch_size"] == 1 for e in prof["execution_strategies"]):
                prof["execution_strategies"].append({"batch_size": 2, "runtime": prof["execution_strategies"][0]["runtime"] + 1,
                                                     "resource_requirements": {"GPU:any": 1}})
    workload = {"graphs": [{k: v for k, v in g.items() if k not in ("shape", "blocks")} for g in graphs],
                "profiles": profiles}
    flags = {
        "scheduler": "Clockwork", "scheduler_runtime": 0, "random_seed": rng.randint(0, 2 ** 31),
        "scheduler_frequency": rng.choice([-1, -1, 1, 3]), "scheduler_delay": rng.choice([0, 0, 1]),
        "scheduler_run_at_worker_free": False, "runtime_variance": 0,
        "resolve_conditionals_at_submission": False, "drop_skipped_tasks": rng.random() < 0.2,
        "enforce_deadlines": True, "workload_update_interval": -1, "log_level": "warning",
        "clockwork_goal": rng.choice(["clockwork", "least_slack"]),
        "unique_work_profiles": True,
    }
    if over.get("exec_needs_ram"):
        # accepted by every policy's constructor; the Clockwork policy ignores it (a request is placed once)
        flags["retract_schedules"] = rng.random() < 0.8
    preload = rng.random() < over.get("p_preload", 0.5)
    flags["scheduler_run_load"] = not preload
    for k, v in over.get("flags", {}).items():
        flags[k] = v
    total = sum(g["invocations"] * 20 for g in graphs) + 50
    flags["loop_timeout"] = over.get("loop_timeout", 20 * total)
    world = {"seed": seed, "index": index, "profile": "clockwork", "cluster": cluster, "workload": workload,
             "flags": flags, "fmt": rng.choice(["yaml", "json"]),
             "meta": {"feasible_intent": True, "shapes": [g["shape"] for g in graphs],
                      "blocks": {g["name"]: [] for g in graphs}, "zero_runtime": False,
                      "preload": preload, "all_fit": True, "every_strategy_fits": True}}
    world["hash"] = case_hash([cluster, workload, flags])
    return world


def gen_world(seed, index, profile="greedy", **over):
    """profile: greedy | planner | clockwork | any.  `over` overrides drawn choices."""
    if profile == "clockwork":
        return gen_clockwork_world(seed, index, **over)
    rng = random.Random(seed_int("world", seed, index, profile))
    zero_rt = over.get("zero_runtime", False)
    runtimes = list(RUNTIMES_DEFAULT) + ([0, 0, 0] if zero_rt else [])
    small = profile == "planner"
    if small:
        over = dict({"max_invocations": 2, "max_nodes": 4, "max_graphs": 2,
                     "deadline_variances": [(0, 0), (0, 50), (10, 100), (50, 200)]}, **over)
        runtimes = [1, 1, 2, 2, 3, 3, 4, 5] + ([0, 0] if zero_rt else [])
    cluster = gen_cluster(
        rng,
        max_pools=over.get("max_pools", 2 if small else 3),
        max_workers=over.get("max_workers", 2 if small else 3),
        multi_instance=over.get("multi_instance", 0.0 if small else 0.25),
        max_q=over.get("max_q", 3 if small else 4),
    )
    feasible = over.get("feasible", rng.random() < 0.9)
    ngraphs = rng.randint(1, over.get("max_graphs", 2 if small else 3))
    graphs, profiles = [], []
    for g in range(ngraphs):
        gname = f"G{g}"
        shape, nodes, blocks = gen_graph(
            rng, gname, max_nodes=over.get("max_nodes", 5 if small else 8),
            shapes=over.get("shapes"), allow_cond=over.get("allow_cond", True))
        shared = rng.random() < 0.2  # some graphs share one profile between jobs
        shared_name = f"P_{gname}_shared"
        for n in nodes:
            pname = shared_name if shared else f"P_{gname}_{n['name']}"
            n["work_profile"] = pname
            if any(p["name"] == pname for p in profiles):
                continue
            nstrat = rng.choice([1, 1, 2, 2, 3])
            strategies = [gen_strategy(rng, cluster, runtimes, feasible=True,
                                       specific_ids=over.get("specific_ids", 0.0)) for _ in range(nstrat)]
            if not feasible and rng.random() < 0.3:
                strategies = [gen_strategy(rng, cluster, runtimes, feasible=False) for _ in range(nstrat)]
            profiles.append({"name": pname, "execution_strategies": strategies})
        pol = rng.choice(over.get("release_policies",
                                  ["fixed", "fixed", "fixed", "poisson", "gamma", "closed_loop"]))
        gd = {"name": gname, "graph": nodes, "release_policy": pol, "shape": shape, "blocks": blocks}
        inv = rng.randint(1, over.get("max_invocations", 2 if small else 4))
        if rng.random() < 0.5:
            gd["start"] = rng.randint(0, 5)
        if pol == "fixed":
            gd["period"] = rng.choice(over.get("periods", [0, 0, 1, 2, 5, 10]))
            gd["invocations"] = inv
        elif pol == "periodic":
            gd["period"] = rng.choice([3, 5, 10, 20])
        elif pol == "poisson":
            gd["rate"] = rng.choice([0.1, 0.25, 0.5, 1.0])
            gd["invocations"] = inv
        elif pol == "gamma":
            gd["rate"] = rng.choice([0.1, 0.25, 0.5])
            gd["coefficient"] = rng.choice([0.5, 1.0, 2.0])
            gd["invocations"] = inv
        elif pol == "closed_loop":
            gd["concurrency"] = rng.randint(1, 2)
            gd["invocations"] = inv
        gd["deadline_variance"] = list(rng.choice(
            over.get("deadline_variances", [(0, 0), (0, 50), (10, 100), (50, 200), (500, 500), (1000, 2000)])))
        graphs.append(gd)
    # the order in which a description lists its nodes is free (children may come before their parents): top-down as
    # generated, reversed, by name or shuffled.  Own stream, so that the other dimensions of a world do not move.
    orng = random.Random(seed_int("listing-order", seed, index, profile))
    for g in graphs:
        how = orng.choice(["asis", "asis", "asis", "reversed", "byname", "shuffled"])
        if how == "reversed":
            g["graph"] = list(reversed(g["graph"]))
        elif how == "byname":
            g["graph"] = sorted(g["graph"], key=lambda n: n["name"])
        elif how == "shuffled":
            orng.shuffle(g["graph"])
        g["listing"] = how
    workload = {"graphs": [{k: v for k, v in g.items() if k not in ("shape", "blocks", "listing")} for g in graphs],
                "profiles": profiles}

    flags = gen_flags(rng, profile, over)
    # A finite loop timeout, generous: 20 x (serial execution of everything + releases).
    total = 0
    for g in graphs:
        inv = g.get("invocations", 4)
        per_graph = sum(
            max(s["runtime"] for s in next(p for p in profiles if p["name"] == n["work_profile"])["execution_strategies"])
            for n in g["graph"])
        total += inv * (per_graph * 2 + 12) + g.get("start", 0) + inv * (g.get("period", 10) + 10)
    sf = max(flags.get("scheduler_frequency", -1), 0)
    timeout = 20 * (total + 10 * (sf + flags.get("scheduler_delay", 0) + 2)) + 200
    if small:
        # every microsecond of a planner run may cost a solver call: keep the horizon short
        timeout = min(timeout, 4 * total + 60, 400)
    if over.get("tight_timeout"):
        # a loop timeout that falls INSIDE the run: tasks are running, scheduled or still to be released when it strikes
        trng = random.Random(seed_int("tight-timeout", seed, index, profile))
        timeout = max(4, int(total * trng.uniform(0.1, 0.7)))
    flags["loop_timeout"] = over.get("loop_timeout", timeout)
    world = {
        "seed": seed, "index": index, "profile": profile,
        "cluster": cluster, "workload": workload, "flags": flags,
        "fmt": rng.choice(["yaml", "yaml", "json"]),
        "meta": {"feasible_intent": feasible, "shapes": [g["shape"] for g in graphs], "listing": [g["listing"] for g in graphs],
                 "blocks": {g["name"]: g["blocks"] for g in graphs},
                 "zero_runtime": zero_rt, "tight_timeout": bool(over.get("tight_timeout"))},
    }
    world["meta"]["all_fit"] = all(
        any(strategy_fits_empty(s, cluster) for s in p["execution_strategies"]) for p in profiles)
    world["meta"]["every_strategy_fits"] = all(
        all(strategy_fits_empty(s, cluster) for s in p["execution_strategies"]) for p in profiles)
    world["hash"] = case_hash([cluster, workload, flags])
    return world


def gen_flags(rng, profile, over):
    if "scheduler" in over:
        sched = over["scheduler"]
    elif profile == "greedy":
        sched = rng.choice(GREEDY)
    elif profile == "planner":
        sched = rng.choice(PLANNERS)
    elif profile == "clockwork":
        sched = "Clockwork"
    else:
        sched = rng.choice(ALL_POLICIES)
    f = {
        "scheduler": sched,
        "scheduler_runtime": 0,
        "random_seed": rng.randint(0, 2 ** 31),
        "scheduler_frequency": rng.choice(over.get("frequencies", [-1, -1, 0, 1, 3, 10])),
        "scheduler_delay": rng.choice(over.get("delays", [0, 0, 1, 3])),
        "scheduler_run_at_worker_free": rng.random() < 0.15,
        "runtime_variance": rng.choice(over.get("variances", [0, 0, 0, 20, 50])),
        "resolve_conditionals_at_submission": rng.random() < 0.3,
        "drop_skipped_tasks": rng.random() < over.get("p_drop", 0.2),
        "enforce_deadlines": rng.random() < over.get("p_enforce", 0.35),
        "workload_update_interval": rng.choice([-1, -1, -1, 5, 50]),
        "log_level": "warning",
    }
    # per-stage deadlines: the tasks of one graph then carry different deadlines (the default gives every task the
    # graph's).  Drawn from a separate stream so that the other dimensions of earlier worlds are unchanged.
    if random.Random(f["random_seed"]).random() < over.get("p_decompose", 0.15) and not over.get("zero_runtime"):
        f["decompose_deadlines"] = True
    if sched in ("LSF",):
        f["enforce_deadlines"] = f["enforce_deadlines"]  # flag accepted, ignored by LSF
    if sched in PLANNERS:
        f["scheduler_lookahead"] = rng.choice([0, 0, 2, 5, 20])
        f["retract_schedules"] = rng.random() < 0.3
        f["ilp_goal"] = "max_goodput"
        if sched != "TetriSched_CPLEX":
            f["release_taskgraphs"] = rng.random() < 0.4
        if sched == "ILP":
            # max_goodput is only accepted together with deadline enforcement
            if rng.random() < 0.3:
                f["ilp_goal"] = "max_slack"
            else:
                f["enforce_deadlines"] = True
        else:
            f["scheduler_time_discretization"] = rng.choice([1, 1, 2, 3])
            # an unbounded plan-ahead makes the space-time matrix as long as the largest
            # absolute deadline, which quickly exceeds the size-limited solver licences
            f["scheduler_plan_ahead"] = rng.choice([-1, 8, 12, 12, 20])
    for k in ("scheduler_frequency", "scheduler_delay", "runtime_variance", "enforce_deadlines",
              "drop_skipped_tasks", "scheduler_run_at_worker_free", "resolve_conditionals_at_submission",
              "release_taskgraphs", "retract_schedules", "scheduler_lookahead", "ilp_goal",
              "scheduler_time_discretization", "scheduler_plan_ahead", "workload_update_interval"):
        if k in over.get("flags", {}):
            f[k] = over["flags"][k]
    for k, v in over.get("flags", {}).items():
        f[k] = v
    return f


def write_world(world, directory):
    """Writes the input files; returns (argv list, paths dict)."""
    os.makedirs(directory, exist_ok=True)
    ext = world["fmt"]
    wl = os.path.join(directory, f"workload.{ext}")
    cl = os.path.join(directory, f"cluster.{ext}")
    with open(wl, "w") as f:
        if ext == "json":
            json.dump(world["workload"], f)
        else:
            yaml.safe_dump(world["workload"], f, sort_keys=False)
    with open(cl, "w") as f:
        if ext == "json":
            json.dump(world["cluster"], f)
        else:
            yaml.safe_dump(world["cluster"], f, sort_keys=False)
    csv = os.path.join(directory, "trace.csv")
    argv = [
        "main.py",
        f"--execution_mode={'json' if ext == 'json' else 'yaml'}",
        f"--workload_profile_path={wl}",
        f"--worker_profile_path={cl}",
        f"--log_dir={directory}",
        "--csv_file_name=trace.csv",
        "--log_file_name=sim.log",
    ]
    for k, v in world["flags"].items():
        if isinstance(v, bool):
            argv.append(f"--{k}" if v else f"--no{k}")
        else:
            argv.append(f"--{k}={v}")
    return argv, {"workload": wl, "cluster": cl, "csv": csv, "log": os.path.join(directory, "sim.log")}
