"""Worker process: runs one shard of a check and writes its JSON result."""
import json
import os
import sys


def main():
    pid, spec_path, out_path, workdir = sys.argv[1:5]
    from vmon import common
    real_stdout = sys.stdout
    sys.stdout = common.DevNull()  # the repository logs to stdout by default
    from vmon import framework
    chk = framework.load_check(pid)
    with open(spec_path) as f:
        spec = json.load(f)
    os.makedirs(workdir, exist_ok=True)
    if spec.get("_suite"):  # the repository's own tests as a workload, monitors attached (vmon.suitemon)
        from vmon import suitemon
        res = suitemon.run_suite(common.REPO, workdir, only=spec.get("only"))
        res["_suite"] = True
    else:
        res = chk.run_shard(spec, workdir)
    with open(out_path, "w") as f:
        json.dump(res, f, default=str)
    sys.stdout = real_stdout


if __name__ == "__main__":
    main()
