"""C13: EDF / FIFO / LSF honour their priority order (no priority inversion).

Direct calls of schedule() on generated states and an independent fit oracle.  Most pools
have one worker (the location of a placement is then unambiguous); on two-worker pools the
oracle quantifies over every location the higher/equal-priority placements may have."""
import logging
import random

from ..common import seed_int, case_hash


class PriorityCheck:
    pid = "C13"

    def shard_timeout(self, tier):
        return 900 if tier == "quick" else 7200

    def shards(self, tier, seed):
        n = 6000 if tier == "quick" else 120000
        k = 16 if tier == "quick" else 48
        return [{"seed": seed, "shard": i, "count": n // k} for i in range(k)]

    def replay_spec(self, case):
        return {"seed": case["seed"], "shard": case["shard"], "count": case["count"], "only": case.get("index")}

    def run_shard(self, spec, workdir):
        import workload as wl
        import workers as wk
        import schedulers as S
        from utils import EventTime
        US = EventTime.Unit.US
        lg = logging.getLogger("c13")
        lg.addHandler(logging.NullHandler())
        lg.propagate = False
        lg.setLevel(logging.CRITICAL)
        viol, counters, samples, nontrivial = [], {}, [], set()

        def bump(k, n=1):
            counters[k] = counters.get(k, 0) + n

        policies = {"EDF": lambda e: S.EDFScheduler(runtime=EventTime.zero(), enforce_deadlines=e),
                    "FIFO": lambda e: S.FIFOScheduler(runtime=EventTime.zero(), enforce_deadlines=e),
                    "LSF": lambda e: S.LSFScheduler(runtime=EventTime.zero())}
        for s in policies.values():
            sch = s(False)
            sch._logger.handlers.clear()
            sch._logger.addHandler(logging.NullHandler())
            sch._logger.setLevel(logging.CRITICAL)
        for idx in range(spec["count"]):
            if spec.get("only") is not None and idx != spec["only"]:
                # keep the random stream aligned: instances are seeded individually
                continue
            rng = random.Random(seed_int("c13", spec["seed"], spec["shard"], idx))
            pname = rng.choice(list(policies))
            now = rng.choice([0, 5, 10, 37])
            # a quarter of the instances live on a millisecond scale with release times and deadlines given partly in ms and
            # partly in us (time values are exact whatever their unit: the priority order must not depend on it)
            mixed_units = rng.random() < 0.25
            if mixed_units:
                now = rng.choice([4000, 9000, 12500])
                bump("invocations_with_mixed_units")
            types = ["CPU", "GPU"][:rng.randint(1, 2)]
            npools = rng.randint(1, 4)
            pools, caps = [], []
            # caps[p] / used[p]: one dict per worker of pool p (most pools have one worker: the location of a placement is
            # then unambiguous; with two workers the oracle quantifies over the possible locations, see surely_fits)
            multi = rng.random() < 0.4
            workers_of = []
            for p in range(npools):
                wcaps, ws = [], []
                for wi in range(2 if (multi and rng.random() < 0.6) else 1):
                    cap = {t: rng.randint(1, 4) for t in types if rng.random() < 0.85} or {types[0]: rng.randint(1, 4)}
                    res = wl.Resources(resource_vector={wl.Resource(name=t, _id=None): q for t, q in cap.items()}, _logger=lg)
                    ws.append(wk.Worker(name=f"W{p}{wi}", resources=res, _logger=lg))
                    wcaps.append(cap)
                pools.append(wk.WorkerPool(name=f"P{p}", workers=ws, _logger=lg))
                workers_of.append(ws)
                caps.append(wcaps)
            wps = wk.WorkerPools(pools)
            # partial occupancy by running tasks outside the workload
            used = [[dict.fromkeys(c, 0) for c in wc] for wc in caps]
            job0 = wl.Job(name="occ")
            for p in range(npools):
                for wi, w in enumerate(workers_of[p]):
                    if rng.random() < 0.5:
                        req = {t: rng.randint(0, caps[p][wi][t]) for t in caps[p][wi]}
                        req = {t: q for t, q in req.items() if q > 0}
                        if not req:
                            continue
                        st = wl.ExecutionStrategy(resources=wl.Resources(
                            resource_vector={wl.Resource(name=t, _id="any"): q for t, q in req.items()}, _logger=lg),
                            batch_size=1, runtime=EventTime(20, US))
                        occ = wl.Task(name=f"occ{p}{wi}", task_graph="occ", job=job0, deadline=EventTime(999, US), _logger=lg)
                        pools[p].place_task(occ, execution_strategy=st, worker_id=w.id)
                        for t, q in req.items():
                            used[p][wi][t] += q
            if any(len(wc) > 1 for wc in caps):
                bump("invocations_with_multi_worker_pool")

            def assignments(pi, demands):
                """every way of putting `demands` (list of {type: q}) on the workers of pool pi within capacity, on top of the
                occupants; yields the resulting per-worker usage"""
                nw = len(caps[pi])

                def rec(k, use):
                    if k == len(demands):
                        yield use
                        return
                    for wi in range(nw):
                        if all(caps[pi][wi].get(t, 0) - use[wi].get(t, 0) >= q for t, q in demands[k].items()):
                            nxt = [dict(x) for x in use]
                            for t, q in demands[k].items():
                                nxt[wi][t] = nxt[wi].get(t, 0) + q
                            yield from rec(k + 1, nxt)
                yield from rec(0, [dict(x) for x in used[pi]])

            def surely_fits(pi, demands, strategies):
                """True iff pool pi can hold `demands` at all and, WHEREVER they were put, some worker still has room for one of
                `strategies`; None if the demands cannot be placed at all (then the answer itself is over capacity)"""
                any_assignment = False
                for use in assignments(pi, demands):
                    any_assignment = True
                    if not any(all(caps[pi][wi].get(t, 0) - use[wi].get(t, 0) >= q for t, q in req.items())
                               for (req, rt) in strategies for wi in range(len(caps[pi]))):
                        return False
                return True if any_assignment else None
            ntasks = rng.randint(3, 8)
            tied = rng.random() < 0.5
            tasks, specs, graphs = [], [], {}
            for k in range(ntasks):
                nst = rng.choice([1, 1, 2, 3])
                sts, sspec = [], []
                for _ in range(nst):
                    req = {t: rng.randint(1, 4) for t in types if rng.random() < 0.7} or {types[0]: rng.randint(1, 3)}
                    rt = rng.choice([1, 2, 3, 5, 8])
                    sts.append(wl.ExecutionStrategy(resources=wl.Resources(
                        resource_vector={wl.Resource(name=t, _id="any"): q for t, q in req.items()}, _logger=lg),
                        batch_size=1, runtime=EventTime(rt, US)))
                    sspec.append((req, rt))
                prof = wl.WorkProfile(name=f"p{k}", execution_strategies=wl.ExecutionStrategies(sts))
                job = wl.Job(name=f"j{k}", profile=prof)
                rel = rng.choice([0, 0, 1, 2, 3]) if tied else rng.randint(0, now)
                rel = min(rel, now)
                dl = now + (rng.choice([5, 10, 10, 20]) if tied else rng.randint(1, 60))
                rel_t, dl_t = EventTime(rel, US), EventTime(dl, US)
                if mixed_units:
                    rel = rng.choice([1000, 2000, 3000, 1500, 2500, 3500, 900, 2999]) if not tied else rng.choice([2000, 2000, 3000, 2500])
                    dl = now + rng.choice([1000, 2000, 5000, 1500, 700, 2500, 10000])
                    MS = EventTime.Unit.MS
                    rel_t = EventTime(rel // 1000, MS) if (rel % 1000 == 0 and rng.random() < 0.7) else EventTime(rel, US)
                    dl_t = EventTime(dl // 1000, MS) if (dl % 1000 == 0 and rng.random() < 0.7) else EventTime(dl, US)
                t = wl.Task(name=f"t{k}", task_graph=f"g{k}", job=job, deadline=dl_t,
                            timestamp=0, release_time=rel_t, _logger=lg)
                t.release(rel_t)
                tasks.append(t)
                specs.append({"rel": rel, "deadline": dl, "strategies": sspec})
                graphs[f"g{k}"] = wl.TaskGraph(name=f"g{k}", tasks={t: []})
            workload = wl.Workload.from_task_graphs(graphs)
            enforce = pname != "LSF" and rng.random() < 0.25
            sched = policies[pname](enforce)
            try:
                placements = list(sched.schedule(EventTime(now, US), workload, wps))
            except Exception as e:
                viol.append(self._v("schedule_raises", f"{pname}: {type(e).__name__}: {e}", spec, idx))
                continue
            bump("invocations")
            bump("invocations_" + pname)
            PT = wl.Placement.PlacementType
            dec = {}
            for p in placements:
                dec[id(p.task)] = p
            pool_index = {pl.id: i for i, pl in enumerate(pools)}

            def key(k):
                sp = specs[k]
                if pname == "EDF":
                    return sp["deadline"]
                if pname == "FIFO":
                    return sp["rel"]
                return sp["deadline"] - now - max(rt for _, rt in sp["strategies"])
            unplaced = [k for k in range(ntasks) if id(tasks[k]) in dec and dec[id(tasks[k])].placement_type == PT.PLACE_TASK
                        and not dec[id(tasks[k])].is_placed()]
            missing = [k for k in range(ntasks) if id(tasks[k]) not in dec]
            if missing:
                viol.append(self._v("task_unanswered", f"{pname}: no decision for {['t%d' % k for k in missing]}", spec, idx))
            keys = [key(k) for k in range(ntasks)]
            if len(set(keys)) < len(keys):
                bump("invocations_with_ties")
            if unplaced:
                bump("invocations_with_unplaced")
                nontrivial.add(case_hash([pname, now, caps, used, specs]))
            def demand_of(p):
                d = {}
                for res, q in p.execution_strategy.resources.resources:
                    d[res.name] = d.get(res.name, 0) + q
                return d
            for u in unplaced:
                hp = [[] for _ in range(npools)]  # demands of the placed tasks of higher or equal priority, per pool
                for k in range(ntasks):
                    if k == u:
                        continue
                    p = dec.get(id(tasks[k]))
                    if p is None or p.placement_type != PT.PLACE_TASK or not p.is_placed():
                        continue
                    if keys[k] <= keys[u]:
                        hp[pool_index[p.worker_pool_id]].append(demand_of(p))
                bump("unplaced_judged")
                for pi in range(npools):
                    verdict = surely_fits(pi, hp[pi], specs[u]["strategies"])
                    if len(caps[pi]) > 1:
                        bump("unplaced_judged_on_multi_worker_pool")
                    if verdict:
                        viol.append(self._v(
                            "priority_inversion",
                            f"{pname} at now={now}: t{u} (key {keys[u]}, strategies {specs[u]['strategies']}) left unplaced although one of its "
                            f"strategies fits a worker of pool {pi} wherever the higher/equal-priority placements {hp[pi]} were put "
                            f"(worker capacities {caps[pi]}, occupants {used[pi]}); keys={keys}; "
                            f"decisions={[(('t%d' % k), (pool_index.get(dec[id(tasks[k])].worker_pool_id) if id(tasks[k]) in dec and dec[id(tasks[k])].placement_type == PT.PLACE_TASK else 'cancel')) for k in range(ntasks)]}",
                            spec, idx))
                        break
            # sanity of the oracle's own accounting: the placed tasks of a pool must fit on its workers together
            for pi in range(npools):
                allp = [demand_of(dec[id(tasks[k])]) for k in range(ntasks)
                        if id(tasks[k]) in dec and dec[id(tasks[k])].placement_type == PT.PLACE_TASK and dec[id(tasks[k])].is_placed()
                        and pool_index[dec[id(tasks[k])].worker_pool_id] == pi]
                if next(assignments(pi, allp), None) is None:
                    viol.append(self._v("placed_over_capacity", f"{pname}: the placements {allp} of pool {pi} do not fit its workers "
                                                                f"{caps[pi]} with occupants {used[pi]}", spec, idx))
            if len(samples) < 2 and unplaced:
                samples.append({"policy": pname, "now": now, "pool_capacity": caps, "pre_occupied": used,
                                "tasks": specs, "keys": keys,
                                "decisions": [("placed" if (id(tasks[k]) in dec and dec[id(tasks[k])].placement_type == PT.PLACE_TASK and dec[id(tasks[k])].is_placed()) else "not placed") for k in range(ntasks)]})
        return {"viol": viol[:40], "counters": counters, "samples": samples, "nontrivial": sorted(nontrivial)}

    def _v(self, kind, detail, spec, idx):
        return {"kind": kind, "detail": detail, "case": {"seed": spec["seed"], "shard": spec["shard"], "count": spec["count"], "index": idx},
                "case_id": f"{spec['shard']}/{idx}"}

    def conclude(self, results, tier, seed):
        viol = [v for r in results for v in r["viol"]]
        tot = {}
        nt = set()
        for r in results:
            nt.update(r["nontrivial"])
            for k, v in r["counters"].items():
                tot[k] = tot.get(k, 0) + v
        inconclusive = []
        if tot.get("invocations_with_unplaced", 0) < (600 if tier == "quick" else 10000):
            inconclusive.append(f"only {tot.get('invocations_with_unplaced', 0)} invocations with an unplaced task")
        if tot.get("invocations_with_ties", 0) < 100:
            inconclusive.append("too few invocations with priority ties")
        if tot.get("invocations_with_mixed_units", 0) < (500 if tier == "quick" else 10000):
            inconclusive.append(f"only {tot.get('invocations_with_mixed_units', 0)} invocations with mixed time units")
        if tot.get("unplaced_judged_on_multi_worker_pool", 0) < (300 if tier == "quick" else 5000):
            inconclusive.append(f"only {tot.get('unplaced_judged_on_multi_worker_pool', 0)} unplaced tasks judged against a two-worker pool")
        for p in ("EDF", "FIFO", "LSF"):
            if tot.get("invocations_" + p, 0) < 300:
                inconclusive.append(f"{p} invoked {tot.get('invocations_' + p, 0)} times")
        cov = {"evaluations": tot.get("invocations", 0), "distinct_nontrivial": len(nt),
               "rule": "direct schedule() calls of EDF/FIFO/LSF on generated states: 3-8 released tasks with 1-3 strategies, 1-4 "
                       "pools of one (mostly) or two workers, partially occupied, many ties; on a two-worker pool a task counts as wrongly unplaced only "
                       "if it fits wherever the higher/equal-priority placements of that pool were put; non-trivial = distinct state in which at least one task was "
                       "left unplaced (the oracle is evaluated only there)",
               "samples": [s for r in results for s in r["samples"]][:4], "counters": tot}
        return {"violations": viol, "coverage": cov, "inconclusive": inconclusive,
                "assumptions": ["priority keys recomputed by the harness: EDF deadline, FIFO release time, LSF deadline - now - slowest runtime",
                                "accounting more placed tasks only shrinks capacity, so ties cannot cause a false alarm"]}


def get_check(pid):
    return PriorityCheck()
