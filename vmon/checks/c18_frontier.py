"""C18: the scheduling frontier.  (1) every real frontier / notify / releasable call inside
end-to-end runs, (2) probe calls with a grid of lookaheads, switches and branch policies
at every SCHEDULER_START, (3) a direct random walker over small task graphs."""
import logging
import random

from .e2e_checks import E2ECheck, RULES, BASE_MIX
from .. import worldgen
from ..common import seed_int, case_hash

RULES["C18"] = ("a world in which a frontier call saw a conditional or a join among the offered tasks, or a task was "
                "scheduled ahead of its release / parents (plan-ahead)",
                lambda s: s["counters"].get("frontier_calls_with_cond", 0) > 0 or "plan_ahead" in s["flags_seen"], 40)


class FrontierCheck(E2ECheck):
    def __init__(self):
        super().__init__("C18")

    def opts(self):
        return {"frontier_probes": True, "csvreader": False}

    def mix(self, tier):
        return [("greedy", {}, 0.3), ("greedy", {"zero_runtime": True}, 0.1), ("greedy", {"shapes": ["cond", "cond_nested", "multi_cond", "cond_dag", "join", "diamond"]}, 0.25),
                ("planner", {}, 0.25), ("clockwork", {}, 0.1)]

    def shards(self, tier, seed):
        specs = super().shards(tier, seed)
        nw = 24 if tier == "quick" else 64
        per = 60 if tier == "quick" else 800
        for i in range(nw):
            specs.append({"walker": True, "seed": seed, "shard": i, "count": per})
        return specs

    def run_shard(self, spec, workdir):
        if spec.get("walker"):
            return self.walker(spec)
        return super().run_shard(spec, workdir)

    # -------------------------------------------------------------------------
    def walker(self, spec):
        """drives small graphs through legal transition sequences without the simulator and
        checks the frontier after every step."""
        import workload as wl
        from utils import EventTime
        US = EventTime.Unit.US
        BP = wl.BranchPredictionPolicy
        lg = logging.getLogger("c18")
        lg.addHandler(logging.NullHandler())
        lg.propagate = False
        lg.setLevel(logging.CRITICAL)
        viol, counters = [], {}
        hashes = set()

        def bump(k, n=1):
            counters[k] = counters.get(k, 0) + n

        for idx in range(spec["count"]):
            rng = random.Random(seed_int("c18w", spec["seed"], spec["shard"], idx))
            shape, nodes, blocks = worldgen.gen_graph(rng, "G", max_nodes=7)
            if rng.random() < 0.3:
                # a join reached along paths of different lengths, with descendants: R -> J, R -> S (-> V) -> J, J -> K (-> L)
                shape = "skip_join"
                mid = ["S", "V"][:rng.randint(1, 2)]
                nodes = [{"name": "R", "children": ["J", mid[0]]}]
                for a, b in zip(mid, mid[1:] + ["J"]):
                    nodes.append({"name": a, "children": [b]})
                tail = ["K", "L"][:rng.randint(1, 2)]
                nodes.append({"name": "J", "children": [tail[0]]})
                for a, b in zip(tail, tail[1:] + [None]):
                    nodes.append({"name": a, "children": [b] if b else []})
                if rng.random() < 0.4:
                    nodes[0]["children"].append("X")
                    nodes.append({"name": "X", "children": [tail[-1]]})
                blocks = []
            jobs, tasks = {}, {}
            for n in nodes:
                sts = [wl.ExecutionStrategy(resources=wl.Resources(_logger=lg), batch_size=1,
                                            runtime=EventTime(rng.choice([0, 1, 2, 3, 5]), US)) for _ in range(rng.choice([1, 2]))]
                prof = wl.WorkProfile(name="p" + n["name"], execution_strategies=wl.ExecutionStrategies(sts))
                jobs[n["name"]] = wl.Job(name=n["name"], profile=prof, conditional=bool(n.get("conditional")),
                                         terminal=bool(n.get("terminal")), probability=n.get("probability", 1.0))
            par = {n["name"]: [] for n in nodes}
            for n in nodes:
                for c in n.get("children", []):
                    par[c].append(n["name"])
            rel0 = rng.randint(0, 5)
            for n in nodes:
                tasks[n["name"]] = wl.Task(name=n["name"], task_graph="G@0", job=jobs[n["name"]], deadline=EventTime(500, US),
                                           timestamp=0, release_time=EventTime(rel0 if not par[n["name"]] else -1, US), _logger=lg)
            tg = wl.TaskGraph(name="G@0", tasks={tasks[n["name"]]: [tasks[c] for c in n.get("children", [])] for n in nodes})
            now = rel0
            hist = []
            planned_ahead = [False]
            # the simulator releases every source at the graph's release time before any policy runs
            for n in nodes:
                if not par[n["name"]]:
                    tasks[n["name"]].release(EventTime(rel0, US))

            def bad(kind, detail):
                if len(viol) < 30:
                    viol.append({"kind": kind, "detail": f"{detail}; graph={[(n['name'], n.get('children', []), n.get('conditional', False), n.get('terminal', False)) for n in nodes]}; history={hist}",
                                 "case": {"walker": True, "seed": spec["seed"], "shard": spec["shard"], "count": spec["count"]},
                                 "case_id": f"walker/{spec['shard']}/{idx}"})

            def check_frontier():
                offers = {}
                state = random.getstate()
                for pol in (BP.ALL, BP.WORST_CASE, BP.BEST_CASE, BP.MAXIMUM):
                    for retract in (False, True):
                        for rtg in (False, True):
                            for la in (0, 2, 7, 1000):
                                try:
                                    res = tg.get_schedulable_tasks(EventTime(now, US), EventTime(la, US), False, retract, None, pol, 0.5, rtg)
                                except Exception as e:
                                    bad(f"frontier_raises:{type(e).__name__}", f"t={now} la={la} retract={retract} rtg={rtg} {pol.name}: {e}")
                                    continue
                                bump("walker_frontier_calls")
                                got = {t.name for t in res}
                                offers[(pol.name, retract, rtg, la)] = got
                                for name, t in tasks.items():
                                    st = t.state.name
                                    if st == "RELEASED" and t.release_time.time <= now and name not in got:
                                        bad("released_task_not_offered", f"t={now} la={la} retract={retract} rtg={rtg} {pol.name}: {name}")
                                    if name in got and st in ("COMPLETED", "CANCELLED", "RUNNING"):
                                        bad("finished_task_offered" if st != "RUNNING" else "running_task_offered", f"t={now} la={la} {pol.name}: {name} {st}")
                                    if name in got and st == "SCHEDULED" and not retract:
                                        bad("scheduled_task_offered", f"t={now} la={la} {pol.name}: {name}")
                                # the frontier of a run that never planned ahead
                                if la == 0 and not rtg and not retract and not planned_ahead[0]:
                                    for name in got:
                                        t = tasks[name]
                                        if t.state.name != "VIRTUAL":
                                            continue
                                        # a VIRTUAL task offered with zero lookahead: every unfinished ancestor must be
                                        # expected to finish by now (zero runtime left) -- otherwise it is offered too early
                                        fin = [tasks[p].is_complete() for p in par[name]]
                                        okp = any(fin) if jobs[name].terminal else all(fin)
                                        if not okp and not _anc_zero(name):
                                            bad("offered_before_parents_done", f"t={now} {pol.name} retract={retract}: {name} VIRTUAL, parents complete={list(zip(par[name], fin))}")
                                # any lookahead, any history: a VIRTUAL task can be offered only if its earliest possible release
                                # (every unfinished ancestor taking its fastest strategy, starting as early as its state allows)
                                # lies within now + lookahead.  A necessary condition only, hence safe for every switch but
                                # release_taskgraphs, which offers whole graphs on purpose.
                                if not rtg:
                                    for name in got:
                                        if tasks[name].state.name != "VIRTUAL":
                                            continue
                                        bump("walker_earliest_release_checks")
                                        lb = _earliest_release(name)
                                        if lb > now + la:
                                            bad("offered_beyond_lookahead", f"t={now} la={la} retract={retract} {pol.name}: {name} VIRTUAL offered, but it cannot be "
                                                f"released before {lb} even if every ancestor takes its fastest strategy")
                random.setstate(state)
                for (pol, retract, rtg, la), got in offers.items():
                    for la2 in (2, 7, 1000):
                        if la2 > la and (pol, retract, rtg, la2) in offers and got - offers[(pol, retract, rtg, la2)]:
                            bad("lookahead_not_monotone", f"t={now} {pol} retract={retract} rtg={rtg}: {sorted(got - offers[(pol, retract, rtg, la2)])} offered at {la} but not at {la2}")
                    if not rtg and (pol, retract, True, la) in offers and got - offers[(pol, retract, True, la)]:
                        bad("release_taskgraphs_not_monotone", f"t={now} {pol} retract={retract} la={la}: {sorted(got - offers[(pol, retract, True, la)])}")

            INF = 10 ** 9

            def _fastest(p):
                return min(st.runtime.time for st in tasks[p].available_execution_strategies)

            def _earliest_finish(p, seen=frozenset()):
                tp = tasks[p]
                st = tp.state.name
                if st == "COMPLETED":
                    return tp.completion_time.time
                if st == "CANCELLED" or p in seen:
                    return INF
                if st == "RUNNING":
                    return now + min(tp.remaining_time.time, _fastest(p))
                if st == "SCHEDULED":
                    return now + min(tp.remaining_time.time, _fastest(p))
                if st == "RELEASED":
                    return max(now, tp.release_time.time) + _fastest(p)
                return max(now, _earliest_release(p, seen | {p})) + _fastest(p)

            def _earliest_release(name, seen=frozenset()):
                fs = [_earliest_finish(p, seen) for p in par[name]]
                if not fs:
                    return max(0, tasks[name].release_time.time)
                return min(fs) if jobs[name].terminal else max(fs)

            def _expected_finish(p):
                tp = tasks[p]
                st = tp.state.name
                if st == "COMPLETED":
                    return tp.completion_time.time
                if st == "RUNNING":
                    return now + tp.remaining_time.time
                if st == "SCHEDULED":
                    return max(tp.expected_start_time.time, now) + tp.remaining_time.time
                return None

            def _ready_now(p, seen):
                """the task is complete, or is expected to be complete by 'now' (nothing left to run)."""
                tp = tasks[p]
                st = tp.state.name
                if tp.is_complete():
                    return True
                if st == "CANCELLED" or p in seen:
                    return False
                if st == "SCHEDULED":
                    return max(tp.expected_start_time.time, now) + tp.remaining_time.time <= now
                if st == "RUNNING":
                    return tp.remaining_time.time == 0
                if st == "RELEASED":
                    return tp.remaining_time.time == 0 and tp.release_time.time <= now
                return tp.remaining_time.time == 0 and _anc_zero(p, seen | {p})

            def _anc_zero(name, seen=frozenset()):
                rs = [_ready_now(p, seen) for p in par[name]]
                return (any(rs) if jobs[name].terminal else all(rs)) if rs else True

            for step in range(rng.randint(3, 14)):
                cands = []
                for name, t in tasks.items():
                    st = t.state.name
                    if st == "VIRTUAL" and not par[name]:
                        cands.append(("release", name))
                    if st in ("RELEASED", "VIRTUAL") and (st == "RELEASED" or rng.random() < 0.3):
                        # only states a precedence-respecting planner can produce: every parent is complete,
                        # running or itself scheduled, and the start is not before their expected finish
                        pf = [_expected_finish(p) for p in par[name]]
                        if all(f is not None for f in pf) or (jobs[name].terminal and any(f is not None for f in pf)):
                            cands.append(("schedule", name))
                    if st == "SCHEDULED":
                        fin = [tasks[p].is_complete() for p in par[name]]
                        if (any(fin) if jobs[name].terminal else all(fin)) or not par[name]:
                            if t.release_time.time >= 0 and t.expected_start_time.time <= now + 3:
                                cands.append(("start", name))
                        # a precedence-respecting planner that retracts a task also retracts what it planned after it
                        kids = [c for c in tasks if name in par[c]]
                        if not any(tasks[c].state.name == "SCHEDULED" for c in kids):
                            cands.append(("unschedule", name))
                    if st == "RUNNING":
                        cands.append(("finish", name))
                    if st in ("RELEASED", "VIRTUAL", "SCHEDULED") and rng.random() < 0.15:
                        cands.append(("cancel", name))
                cands.append(("tick", None))
                op, name = rng.choice(cands)
                hist.append((op, name, now))
                try:
                    if op == "tick":
                        now += rng.choice([0, 1, 1, 2, 5])
                    elif op == "release":
                        now = max(now, tasks[name].release_time.time)
                        tasks[name].release(EventTime(now, US))
                    elif op == "schedule":
                        t = tasks[name]
                        if t.state.name == "VIRTUAL":
                            planned_ahead[0] = True
                        pf = [f for f in (_expected_finish(p) for p in par[name]) if f is not None]
                        earliest = max([now] + pf)
                        pl = wl.Placement.create_task_placement(task=t, placement_time=EventTime(earliest + rng.choice([0, 0, 1, 3, 8]), US),
                                                                worker_pool_id="pool", worker_id="w",
                                                                execution_strategy=rng.choice(list(t.available_execution_strategies)))
                        t.schedule(EventTime(now, US), pl)
                    elif op == "unschedule":
                        tasks[name].unschedule(EventTime(now, US))
                    elif op == "start":
                        t = tasks[name]
                        if t.state.name == "SCHEDULED" and t.release_time.time < 0:
                            continue
                        now = max(now, t.expected_start_time.time, t.release_time.time)
                        t.start(EventTime(now, US))
                    elif op == "finish":
                        t = tasks[name]
                        now += t.remaining_time.time
                        t.update_remaining_time(EventTime.zero())
                        t.finish(EventTime(now, US))
                        probs = {c.name: c.probability for c in tg.get_children(t)}
                        states = {c.name: c.state.name for c in tg.get_children(t)}
                        rel, canc = tg.notify_task_completion(t, EventTime(now, US))
                        bump("walker_notifies")
                        reln = sorted(x.name for x in rel)
                        if jobs[name].conditional:
                            if len(rel) != 1 and not all(p <= 1e-12 for p in probs.values()):
                                bad("not_exactly_one_child", f"{name} released {reln} probs {probs}")
                            elif len(rel) == 1 and probs[rel[0].name] <= 1e-12:
                                bad("zero_probability_child", f"{name} released {reln} probs {probs}")
                        else:
                            exp = []
                            for c in tg.get_children(t):
                                if states[c.name] == "CANCELLED":
                                    continue
                                if jobs[c.name].terminal or all(tasks[p].is_complete() for p in par[c.name]):
                                    exp.append(c.name)
                            if sorted(exp) != reln:
                                bad("release_on_completion_mismatch", f"{name} completed: released {reln} expected {sorted(exp)}")
                        for x in rel:
                            if x.state.name in ("VIRTUAL", "SCHEDULED"):
                                x.release(EventTime(now, US))
                    elif op == "cancel":
                        tg.cancel(tasks[name], EventTime(now, US))
                except (ValueError, RuntimeError, AssertionError) as e:
                    hist[-1] = hist[-1] + (f"refused:{type(e).__name__}",)
                    bump("walker_refused_ops")
                    if isinstance(e, ValueError) and "sum of the probability" in str(e):
                        break
                check_frontier()
                bump("walker_steps")
            bump("walker_graphs")
            hashes.add(case_hash([shape, [(n["name"], n.get("children", [])) for n in nodes], hist]))
        return {"worlds": [], "walker": {"viol": viol, "counters": counters, "hashes": sorted(hashes)[:0], "n_hashes": len(hashes)}}

    def conclude(self, results, tier, seed):
        e2e_res = [r for r in results if not r.get("walker")]
        out = super().conclude(e2e_res, tier, seed)
        wres = [r["walker"] for r in results if r.get("walker")]
        tot = {}
        for w in wres:
            out["violations"] += w["viol"]
            for k, v in w["counters"].items():
                tot[k] = tot.get(k, 0) + v
        cov = out["coverage"]
        cov["walker_counters"] = tot
        cov["evaluations"] += tot.get("walker_graphs", 0)
        cov["distinct_nontrivial"] += sum(w["n_hashes"] for w in wres)
        cov["rule"] += "; plus a direct random walker: small graphs driven through legal transition sequences (release/schedule/unschedule/start/finish/cancel/tick) with the frontier queried on a grid after every step (distinct = hash of graph and history)"
        mc = cov["monitor_counters"]
        need = [("frontier calls judged in runs", mc.get("frontier_calls", 0), 2000), ("probe calls", mc.get("frontier_probe_calls", 0), 500),
                ("monotonicity pairs", mc.get("monotonicity_pairs", 0), 500), ("walker frontier calls", tot.get("walker_frontier_calls", 0), 20000),
                ("completion notifications judged", mc.get("notify_nonconditional", 0) + tot.get("walker_notifies", 0), 1000),
                ("releasable calls", mc.get("releasable_calls", 0), 100)]
        for name, val, minimum in need:
            cov["deciding"].append({"monitor": name, "evaluations": val, "minimum": minimum})
            if val < minimum:
                out["inconclusive"].append(f"deciding monitor '{name}' evaluated {val} times (< {minimum})")
        return out


def get_check(pid):
    return FrontierCheck()
