"""C19: workload / cluster descriptions are instantiated faithfully.

(1) direct: generated descriptions (YAML and JSON) -> WorkloadLoader / WorkerLoader,
    with and without the real absl flags, compared with the description the generator kept;
(2) e2e: closed-loop worlds, in-flight census per job graph from observed events."""
import json
import logging
import math
import os
import random
import shutil

import yaml

from .. import common, worldgen
from ..common import seed_int, case_hash


def gen_description(rng, idx):
    cluster = worldgen.gen_cluster(rng, multi_instance=0.4, repeat_anonymous=0.3)
    graphs, profiles = [], []
    for g in range(rng.randint(1, 3)):
        shape, nodes, blocks = worldgen.gen_graph(rng, f"G{g}", max_nodes=8)
        use_slo = rng.random() < 0.4
        for n in nodes:
            pname = f"P_G{g}_{n['name']}" if rng.random() < 0.8 else f"P_G{g}_shared"
            n["work_profile"] = pname
            if use_slo and rng.random() < 0.7:
                n["slo"] = rng.randint(1, 40)
            if not any(p["name"] == pname for p in profiles):
                sts = []
                for _ in range(rng.choice([1, 2, 3])):
                    st = worldgen.gen_strategy(rng, cluster, [0, 1, 2, 3, 5, 8, 13], specific_ids=0.3)
                    st["batch_size"] = rng.choice([1, 1, 2, 4])
                    if rng.random() < 0.1:
                        del st["runtime"]  # loader default: zero
                    if rng.random() < 0.1:
                        del st["batch_size"]
                    sts.append(st)
                prof = {"name": pname, "execution_strategies": sts}
                if rng.random() < 0.3:
                    prof["loading_strategies"] = [worldgen.gen_strategy(rng, cluster, [0, 1, 4])]
                profiles.append(prof)
        pol = rng.choice(["fixed", "fixed", "periodic", "poisson", "gamma", "closed_loop"])
        gd = {"name": f"G{g}", "graph": nodes, "release_policy": pol}
        if rng.random() < 0.6:
            gd["start"] = rng.randint(0, 50)
        if pol in ("fixed", "periodic"):
            gd["period"] = rng.choice([0, 1, 3, 10, 25]) if pol == "fixed" else rng.choice([1, 3, 10, 25])
        if pol != "periodic":
            gd["invocations"] = rng.randint(1, 6)
        if pol in ("poisson", "gamma"):
            gd["rate"] = rng.choice([0.05, 0.2, 1.0])
        if pol == "gamma":
            gd["coefficient"] = rng.choice([0.5, 1.0, 4.0])
        if pol == "closed_loop":
            gd["concurrency"] = rng.randint(1, 4)
        if rng.random() < 0.75:
            lo = rng.choice([0, 0, 10, 50, 100])
            gd["deadline_variance"] = [lo, lo + rng.choice([0, 0, 20, 100, 400])]
        graphs.append(gd)
    return cluster, {"graphs": graphs, "profiles": profiles}


class LoaderCheck:
    pid = "C19"

    def shard_timeout(self, tier):
        return 900 if tier == "quick" else 7200

    def shards(self, tier, seed):
        n = 1600 if tier == "quick" else 30000
        k = 16 if tier == "quick" else 48
        specs = [{"seed": seed, "kind": "direct", "shard": i, "count": n // k} for i in range(k)]
        ne = 120 if tier == "quick" else 3000
        for i in range(8 if tier == "quick" else 32):
            specs.append({"seed": seed, "kind": "e2e", "shard": i, "start": i * (ne // (8 if tier == "quick" else 32)),
                          "count": ne // (8 if tier == "quick" else 32)})
        return specs

    def replay_spec(self, case):
        return case["spec"]

    # ------------------------------------------------------------------
    def run_shard(self, spec, workdir):
        self.spec = spec
        self.viol, self.counters, self.samples, self.nt = [], {}, [], set()
        if spec["kind"] == "e2e":
            self._e2e(spec, workdir)
        else:
            self._direct(spec, workdir)
        return {"viol": self.viol[:40], "counters": self.counters, "samples": self.samples, "nontrivial": sorted(self.nt)}

    def bump(self, k, n=1):
        self.counters[k] = self.counters.get(k, 0) + n

    def bad(self, kind, detail, idx, **facts):
        self.viol.append({"kind": kind, "detail": detail, "case": {"spec": self.spec}, "case_id": f"{self.spec['kind']}/{self.spec['shard']}/{idx}",
                          "facts": facts})

    # ------------------------------------------------------------------
    def _direct(self, spec, workdir):
        from absl import flags as absl_flags
        import main as repo_main  # noqa: F401  (defines the flags)
        from data import WorkloadLoader, WorkerLoader
        from utils import EventTime
        import utils
        FLAGS = absl_flags.FLAGS
        os.makedirs(workdir, exist_ok=True)
        for idx in range(spec["count"]):
            rng = random.Random(seed_int("c19", spec["seed"], spec["shard"], idx))
            cluster, workload = gen_description(rng, idx)
            fmt = rng.choice(["yaml", "json"])
            wl_path = os.path.join(workdir, f"w{idx}.{fmt}")
            cl_path = os.path.join(workdir, f"c{idx}.{fmt}")
            for path, obj in ((wl_path, workload), (cl_path, cluster)):
                with open(path, "w") as f:
                    (json.dump(obj, f) if fmt == "json" else yaml.safe_dump(obj, f, sort_keys=False))
            self.bump("descriptions")
            self.bump("fmt_" + fmt)
            has_periodic = any(g["release_policy"] == "periodic" for g in workload["graphs"])
            # a periodic policy needs a finite horizon, which only the flags provide
            use_flags = has_periodic or rng.random() < 0.5
            fl = {}
            flags_obj = None
            timeout = rng.choice([60, 200, 1000])
            if use_flags:
                fl = {"loop_timeout": timeout, "random_seed": rng.randint(0, 10 ** 6), "log_level": "error"}
                if rng.random() < 0.3:
                    fl["replication_factor"] = rng.randint(2, 3)
                if rng.random() < 0.3:
                    fl["unique_work_profiles"] = True
                if rng.random() < 0.25:
                    fl["override_num_invocation"] = rng.randint(1, 5)
                if rng.random() < 0.25:
                    fl["override_arrival_period"] = rng.choice([2, 7])
                if rng.random() < 0.2:
                    fl["override_slo"] = rng.randint(5, 60)
                if rng.random() < 0.3:
                    fl["min_deadline"] = rng.choice([0, 3, 10])
                    fl["max_deadline"] = fl["min_deadline"] + rng.choice([0, 5, 50, 10 ** 6])
                if rng.random() < 0.2:
                    fl["resolve_conditionals_at_submission"] = True
                argv = ["main.py"] + [(f"--{k}" if v is True else f"--{k}={v}") for k, v in fl.items()]
                FLAGS.unparse_flags()
                FLAGS(argv)
                flags_obj = FLAGS
            common.reset_logging()
            utils.EventTime._rng = random.Random(42)
            has_periodic = any(g["release_policy"] == "periodic" for g in workload["graphs"])
            try:
                loader = WorkloadLoader(wl_path, _flags=flags_obj)
            except Exception as e:
                self.bad(f"loader_raises:{type(e).__name__}", f"WorkloadLoader({fmt}, flags={fl}): {type(e).__name__}: {e}; policies={[g['release_policy'] for g in workload['graphs']]}",
                         idx, periodic_with_flags=bool(has_periodic and use_flags))
                continue
            try:
                self._compare_workload(loader, workload, fl, use_flags, timeout, idx)
                wloader = WorkerLoader(cl_path, _flags=flags_obj)
                self._compare_cluster(wloader.get_worker_pools(), cluster, idx)
            except Exception as e:
                import traceback
                self.bad(f"comparison_raises:{type(e).__name__}", traceback.format_exc()[-600:], idx)
            os.remove(wl_path)
            os.remove(cl_path)
            if len(self.samples) < 2:
                self.samples.append({"format": fmt, "flags": fl, "graphs": [
                    {k: v for k, v in g.items() if k != "graph"} | {"nodes": len(g["graph"])} for g in workload["graphs"]]})

    def _compare_cluster(self, pools, cluster, idx):
        pools = list(pools.worker_pools)
        if [p.name for p in pools] != [p["name"] for p in cluster]:
            self.bad("cluster_pools", f"{[p.name for p in pools]} vs {[p['name'] for p in cluster]}", idx)
            return
        for p, pd in zip(pools, cluster):
            if [w.name for w in p.workers] != [w["name"] for w in pd["workers"]]:
                self.bad("cluster_workers", f"pool {p.name}: {[w.name for w in p.workers]}", idx)
                continue
            for w, wd in zip(p.workers, pd["workers"]):
                got = [(r.name, r.id, q) for r, q in w.resources.resources]
                for (n, i, q), rd in zip(got, wd["resources"]):
                    dn = rd["name"].split(":")
                    if n != dn[0] or q != rd["quantity"] or (len(dn) > 1 and i != dn[1]):
                        self.bad("cluster_resource", f"{w.name}: {(n, i, q)} vs {rd}", idx)
                if len(got) != len(wd["resources"]):
                    self.bad("cluster_resource", f"{w.name}: {len(got)} resources vs {len(wd['resources'])}", idx)
                if len({rd["name"] for rd in wd["resources"]}) < len(wd["resources"]):
                    self.bump("workers_with_repeated_resource_entries")
                for n in {rd["name"].split(":")[0] for rd in wd["resources"]}:
                    want = sum(rd["quantity"] for rd in wd["resources"] if rd["name"].split(":")[0] == n)
                    import workload as _wl
                    have = w.resources.get_total_quantity(_wl.Resource(name=n, _id="any"))
                    if have != want:
                        self.bad("cluster_resource_total", f"{w.name}: total {n} = {have}, described {want}", idx)
                ids = [(n, i) for n, i, _ in got]
                if len(set(ids)) != len(ids):
                    self.bad("cluster_resource_ids", f"{w.name}: duplicate ids {ids}", idx)
                self.bump("workers_compared")

    def _compare_workload(self, loader, desc, fl, use_flags, timeout, idx):
        from utils import EventTime
        from workload import JobGraph
        w = loader.workload
        rep = fl.get("replication_factor", 1)
        profs = {p["name"]: p for p in desc["profiles"]}
        expected_names = []
        for g in desc["graphs"]:
            expected_names += [g["name"]] if rep == 1 else [f"{g['name']}_{i}" for i in range(1, rep + 1)]
        if sorted(w.job_graphs) != sorted(expected_names):
            self.bad("job_graph_names", f"{sorted(w.job_graphs)} vs {sorted(expected_names)}", idx)
            return
        all_task_ids = set()
        for g in desc["graphs"]:
            for jname in ([g["name"]] if rep == 1 else [f"{g['name']}_{i}" for i in range(1, rep + 1)]):
                jg = w.job_graphs[jname]
                self.bump("job_graphs")
                nodes = {n["name"]: n for n in g["graph"]}
                jobs = {j.name: j for j in jg.get_nodes()}
                if sorted(jobs) != sorted(nodes):
                    self.bad("graph_nodes", f"{jname}: {sorted(jobs)} vs {sorted(nodes)}", idx)
                    continue
                for name, n in nodes.items():
                    j = jobs[name]
                    if sorted(c.name for c in jg.get_children(j)) != sorted(n.get("children", [])):
                        self.bad("graph_edges", f"{jname}/{name}: children {[c.name for c in jg.get_children(j)]} vs {n.get('children', [])}", idx)
                    if j.conditional != bool(n.get("conditional")) or j.terminal != bool(n.get("terminal")):
                        self.bad("graph_flags", f"{jname}/{name}", idx)
                    if j.probability != n.get("probability", 1.0):
                        self.bad("graph_probability", f"{jname}/{name}: {j.probability} vs {n.get('probability', 1.0)}", idx)
                    exp_slo = fl["override_slo"] if fl.get("override_slo", -1) > 0 else n.get("slo", -1)
                    if j.slo.time != exp_slo:
                        self.bad("job_slo", f"{jname}/{name}: slo {j.slo.time} expected {exp_slo} (node slos: { {k: v.get('slo') for k, v in nodes.items()} })", idx)
                    self.bump("slo_compared")
                    pd = profs[n["work_profile"]]
                    self._compare_profile(j.profile, pd, f"{jname}/{name}", idx)
                # release policy + task graphs
                self._compare_releases(w, jg, jname, g, fl, use_flags, timeout, idx, all_task_ids)

    def _compare_profile(self, prof, pd, where, idx):
        def cmp(strats, sds, what):
            strats = list(strats)
            if len(strats) != len(sds):
                self.bad("profile_strategies", f"{where}: {what}: {len(strats)} vs {len(sds)}", idx)
                return
            for s, sd in zip(strats, sds):
                got = {f"{r.name}:{r.id}": q for r, q in s.resources.resources}
                if got != sd["resource_requirements"] or s.runtime.time != sd.get("runtime", 0) or \
                        s.batch_size != sd.get("batch_size", 1) or s.runtime.unit.name != "US":
                    self.bad("profile_strategy", f"{where}: {what}: runtime {s.runtime} batch {s.batch_size} req {got} vs {sd}", idx)
                self.bump("strategies_compared")
        if not prof.name.startswith(pd["name"]):
            self.bad("profile_name", f"{where}: {prof.name} vs {pd['name']}", idx)
        cmp(prof.execution_strategies, pd["execution_strategies"], "execution")
        cmp(prof.loading_strategies, pd.get("loading_strategies", []), "loading")

    def _compare_releases(self, w, jg, jname, g, fl, use_flags, timeout, idx, all_task_ids):
        pol = g["release_policy"]
        start = g.get("start", 0)
        tgs = sorted((tg for n, tg in w.task_graphs.items() if tg.job_graph is jg), key=lambda t: int(t.name.rsplit("@", 1)[1]))
        rels = [tg.release_time.time for tg in tgs]
        inv = fl.get("override_num_invocation") if (fl.get("override_num_invocation") and pol == "fixed") else g.get("invocations")
        period = fl.get("override_arrival_period") if (fl.get("override_arrival_period") and pol in ("fixed", "periodic")) else g.get("period")
        self.bump("policy_" + pol)
        if pol == "fixed":
            exp = [start + k * period for k in range(inv)]
            if rels != exp:
                self.bad("release_times_fixed", f"{jname}: {rels} expected {exp}", idx)
        elif pol == "periodic":
            exp = list(range(start, timeout, period))
            if rels != exp:
                self.bad("release_times_periodic", f"{jname}: {rels[:8]}.. ({len(rels)}) expected {exp[:8]}.. ({len(exp)}) horizon {timeout}", idx)
        elif pol in ("poisson", "gamma"):
            if len(rels) != inv or any(b < a for a, b in zip(rels, rels[1:])) or (rels and rels[0] != start):
                self.bad("release_times_" + pol, f"{jname}: {rels} for N={inv} start={start}", idx)
        elif pol == "closed_loop":
            exp = [start] * min(g["concurrency"], inv)
            if rels != exp:
                self.bad("release_times_closed_loop", f"{jname}: {rels} expected {exp}", idx)
        if [tg.name for tg in tgs] != [f"{jname}@{k}" for k in range(len(tgs))]:
            self.bad("task_graph_names", f"{jname}: {[tg.name for tg in tgs]}", idx)
        # isomorphic fresh copies + deadlines
        nodes = {n["name"]: n for n in g["graph"]}
        profs = None
        lo, hi = g.get("deadline_variance", [0, 0])
        minb, maxb = fl.get("min_deadline", 0), fl.get("max_deadline", 2 ** 63 - 1)
        base = self._base(jg, nodes, fl)
        for tg in tgs:
            self.bump("task_graphs")
            tasks = {t.name: t for t in tg.get_nodes()}
            if sorted(tasks) != sorted(nodes):
                self.bad("invocation_nodes", f"{tg.name}: {sorted(tasks)}", idx)
                continue
            for name, t in tasks.items():
                if id(t) in all_task_ids:
                    self.bad("invocation_shares_task", f"{tg.name}/{name}", idx)
                all_task_ids.add(id(t))
                if sorted(c.name for c in tg.get_children(t)) != sorted(nodes[name].get("children", [])):
                    self.bad("invocation_edges", f"{tg.name}/{name}", idx)
                if sorted(p.name for p in tg.get_parents(t)) != sorted(k for k, v in nodes.items() if name in v.get("children", [])):
                    self.bad("invocation_parent_edges", f"{tg.name}/{name}", idx)
                issrc = not any(name in v.get("children", []) for v in nodes.values())
                if (t.release_time.time != tg.release_time.time) if issrc else (t.release_time.time != -1):
                    self.bad("invocation_release", f"{tg.name}/{name}: release {t.release_time}", idx)
                if t.task_graph != tg.name or t.profile is not jg_profile(jg, name):
                    self.bad("invocation_task_fields", f"{tg.name}/{name}", idx)
            if base is not None and not fl.get("resolve_conditionals_at_submission"):
                rel = tg.release_time.time
                dls = {t.deadline.time for t in tasks.values()}
                lo_add = max(minb, min(maxb, base * abs(lo) / 100.0))
                hi_add = max(minb, min(maxb, base * abs(hi) / 100.0))
                lo_d, hi_d = rel + math.floor(base + lo_add), rel + math.ceil(base + hi_add)
                self.bump("deadlines_compared")
                if len(dls) != 1 or not all(lo_d <= d <= hi_d for d in dls):
                    self.bad("deadline_out_of_range", f"{tg.name}: deadlines {sorted(dls)} release {rel} base {base} variance {(lo, hi)} "
                                                      f"bounds {(minb, maxb)} allowed [{lo_d},{hi_d}]", idx)
                if lo != hi:
                    self.nt.add(case_hash([jname, rel, sorted(dls)]))

    def _base(self, jg, nodes, fl):
        """critical path of slowest strategies (or SLO sum along that path), recomputed from the description.
        Ambiguous when several paths tie on runtime but differ in SLO sum -> None (not judged)."""
        par = {}
        for k, v in nodes.items():
            for c in v.get("children", []):
                par.setdefault(c, []).append(k)
        jobs = {j.name: j for j in jg.get_nodes()}

        def wt(n):
            if nodes[n].get("probability", 1.0) <= 2.3e-16:
                return 0
            return max(s.runtime.time for s in jobs[n].execution_strategies)

        def val(n):
            slo = fl["override_slo"] if fl.get("override_slo", -1) > 0 else nodes[n].get("slo", -1)
            return slo if slo != -1 else max(s.runtime.time for s in jobs[n].execution_strategies)
        memo = {}

        def best(n):  # (max weight to n, set of value sums achieving it)
            # a zero-weight job (zero runtime / zero probability) may or may not be counted by the
            # path reconstruction: both readings are kept, and a base that depends on it is not judged
            if n not in memo:
                ps = par.get(n, [])
                own = {val(n)} if wt(n) > 0 else {val(n), 0}
                if not ps:
                    memo[n] = (wt(n), own)
                else:
                    cands = [best(p) for p in ps]
                    mw = max(c[0] for c in cands)
                    vals = set()
                    for c in cands:
                        if c[0] == mw:
                            vals |= {v + o for v in c[1] for o in own}
                    memo[n] = (mw + wt(n), vals)
            return memo[n]
        sinks = [n for n in nodes]
        allb = [best(n) for n in sinks]
        mw = max(b[0] for b in allb)
        vals = set()
        for b in allb:
            if b[0] == mw:
                vals |= b[1]
        return vals.pop() if len(vals) == 1 else None

    # ------------------------------------------------------------------
    def _e2e(self, spec, workdir):
        from .. import e2e
        for idx in range(spec["start"], spec["start"] + spec["count"]):
            over = {"release_policies": ["closed_loop"], "max_invocations": 5, "p_enforce": 0.6, "p_drop": 0.5,
                    "deadline_variances": [(0, 0), (0, 20), (10, 50), (50, 200)]}
            rep = 1
            if idx % 3 == 2:
                # every application replicated (--replication_factor): the replicas are separate closed loops
                rep = 2
                over["flags"] = {"replication_factor": 2}
                over["max_invocations"] = 4
            world = worldgen.gen_world(spec["seed"], idx, "greedy" if idx % 4 else "planner", **over)
            wd = os.path.join(workdir, f"w{idx}")
            ctx = e2e.run_world(world, wd, opts={"csvreader": False})
            shutil.rmtree(wd, ignore_errors=True)
            self.bump("closed_loop_runs")
            if ctx.status != "ended":
                self.bump("closed_loop_runs_not_ended")
                continue
            inst = {}
            for r in ctx.tasks.values():
                inst.setdefault(r["graph"], {})[r["name"]] = r
            if rep > 1:
                self.bump("closed_loop_runs_replicated")
            for g, gname_rep in [(g, (g["name"] if rep == 1 else f"{g['name']}_{i}")) for g in world["workload"]["graphs"]
                                 for i in range(1, rep + 1)]:
                gd = ctx.graph_desc[g["name"]]
                sinks = [n for n, cs in gd["children"].items() if not cs]
                ivs = []
                for gname, recs in inst.items():
                    if gname.split("@")[0] != gname_rep:
                        continue
                    rel = min(r["graph_release"] for r in recs.values() if r["graph_release"] >= 0)
                    fins = [recs[s]["finishes"][-1] if recs[s]["finishes"] else None for s in sinks]
                    cancels = [recs[s]["cancelled_at"] for s in sinks if recs[s]["state"] == "CANCELLED"]
                    if cancels:
                        end = min(cancels)
                    elif all(f is not None for f in fins):
                        end = max(fins)
                    else:
                        end = None
                    ivs.append((rel, end, gname))
                total = len(ivs)
                conc, n = g["concurrency"], g["invocations"]
                self.bump("closed_loop_graphs")
                if total > n:
                    self.bad("closed_loop_too_many_invocations", f"{gname_rep}: {total} invocations instantiated, declared {n}; {sorted(ivs)}", idx)
                # max concurrently in flight: a graph ending at t and its successor released at t+1 do not overlap
                pts = sorted({iv[0] for iv in ivs})
                worst = 0
                for t in pts:
                    live = [iv for iv in ivs if iv[0] <= t and (iv[1] is None or iv[1] >= t)]
                    worst = max(worst, len(live))
                    if len(live) > conc:
                        multi = any(sum(1 for r in inst[iv[2]].values() if r["state"] == "CANCELLED") >= 2 for iv in ivs)
                        self.bad("closed_loop_concurrency_exceeded",
                                 f"{gname_rep} (concurrency {conc}, N {n}) at t={t}: {len(live)} in flight {[(iv[2], iv[0], iv[1]) for iv in live]}",
                                 idx, after_multi_task_cancellation=multi)
                        break
                if ctx.end_time < world["flags"]["loop_timeout"] and total < n and all(iv[1] is not None for iv in ivs):
                    self.bad("closed_loop_too_few_invocations", f"{gname_rep}: run ended with {total} of {n} invocations, all finished/cancelled", idx,
                             open_conditional=any(b.get("open") for b in world["meta"]["blocks"].get(g["name"], [])))
                if total > conc:
                    self.nt.add(world["hash"] + gname_rep)
        return


def jg_profile(jg, name):
    for j in jg.get_nodes():
        if j.name == name:
            return j.profile
    return None


class _Check(LoaderCheck):
    def conclude(self, results, tier, seed):
        viol = [v for r in results for v in r["viol"]]
        tot, nt = {}, set()
        for r in results:
            nt.update(r["nontrivial"])
            for k, v in r["counters"].items():
                tot[k] = tot.get(k, 0) + v
        inconclusive = []
        for pol in ("fixed", "periodic", "poisson", "gamma", "closed_loop"):
            if tot.get("policy_" + pol, 0) < 100:
                inconclusive.append(f"release policy {pol} seen {tot.get('policy_' + pol, 0)} times")
        if tot.get("closed_loop_runs", 0) - tot.get("closed_loop_runs_not_ended", 0) < 50:
            inconclusive.append("fewer than 50 closed-loop runs ended")
        if tot.get("deadlines_compared", 0) < 1000 or tot.get("slo_compared", 0) < 1000:
            inconclusive.append("too few deadlines / SLOs compared")
        if tot.get("workers_compared", 0) < 1000 or tot.get("workers_with_repeated_resource_entries", 0) < 200:
            inconclusive.append("too few workers (or workers with repeated resource entries) compared")
        cov = {"evaluations": tot.get("descriptions", 0) + tot.get("closed_loop_runs", 0), "distinct_nontrivial": len(nt),
               "rule": "generated workload+cluster descriptions (1-3 graphs of 1-12 jobs incl. conditionals, SLOs, 1-3 strategies with "
                       "'any'/specific ids, loading strategies, all 5 release policies, deadline variances) written as YAML or JSON and "
                       "loaded with and without absl flags (overrides, replication, bounds); plus closed-loop end-to-end runs with "
                       "cancelling policies; non-trivial = a task graph whose deadline was drawn from a non-degenerate variance range, "
                       "or a closed-loop job with more invocations than its concurrency",
               "samples": [s for r in results for s in r["samples"]][:4], "counters": tot}
        return {"violations": viol, "coverage": cov, "inconclusive": inconclusive,
                "assumptions": ["the description kept by the generator is ground truth",
                                "deadline base is not judged when several critical paths tie on runtime but differ in SLO sum"]}


def get_check(pid):
    return _Check()
