"""C04: ledger conservation by direct-drive histories over Resources / Worker /
WorkerPool(s) against an independent occupancy model.  Only public getters are
compared.  (The end-to-end part — idle workers back at full capacity — runs in
the e2e worlds, see e2e._idle_capacity_check, and is merged here.)"""
import copy as pycopy
import itertools
import logging
import random

from ..common import seed_int, case_hash

NAMES = ["A", "B", "C"]
IDS = ["x", "y", "z"]


class Refused(Exception):
    pass


# ----------------------------------------------------------------------------
# independent model
# ----------------------------------------------------------------------------
class MWorker:
    """Instance-level occupancy model.  The ledger is first-come: an 'any' request is
    pinned to the instances it was served from, so the model records, per holder, the
    (name, id, q) triples the ledger reported right after a successful placement (after
    validating them) and decides later fits on per-instance availability."""

    def __init__(self, cap):
        self.cap = dict(cap)  # (name, id) -> capacity
        self.holders = {}  # key -> request {(name, id|'any'): q}
        self.alloc = {}  # key -> [(name, id, q)] as validated at placement
        self.members = {}  # batch key -> set(task index)

    def names(self):
        return sorted({n for n, _ in self.cap})

    def total(self, name):
        return sum(q for (n, _), q in self.cap.items() if n == name)

    def demand(self, name):
        return sum(q for req in self.holders.values() for (n, _), q in req.items() if n == name)

    def free(self, name):
        return self.total(name) - self.demand(name)

    def inst_free(self):
        f = dict(self.cap)
        for al in self.alloc.values():
            for n, i, q in al:
                f[(n, i)] -= q
        return f

    def feasible(self, req):
        f = self.inst_free()
        for name in {n for (n, _) in req}:
            spec = sum(q for (n, i), q in req.items() if n == name and i != "any")
            for (n, i), q in req.items():
                if n == name and i != "any" and q > f.get((n, i), 0):
                    return False
            anyq = sum(q for (n, i), q in req.items() if n == name and i == "any")
            if anyq + spec > sum(v for (n, i), v in f.items() if n == name):
                return False
        return True

    def admit(self, key, req, reported):
        """validate what the ledger says it gave to the holder; returns error text or None."""
        f = self.inst_free()
        by = {}
        for n, i, q in reported:
            if (n, i) not in self.cap:
                return f"reports unknown instance {n}:{i}"
            if q > f[(n, i)]:
                return f"reports {q} of {n}:{i} but only {f[(n, i)]} was free"
            f[(n, i)] -= q
            by[n] = by.get(n, 0) + q
        want = {}
        for (n, i), q in req.items():
            want[n] = want.get(n, 0) + q
            if i != "any" and sum(qq for nn, ii, qq in reported if nn == n and ii == i) < q:
                return f"asked {n}:{i} x{q} but holds {reported}"
        if {k: v for k, v in by.items() if v} != {k: v for k, v in want.items() if v}:
            return f"holds {reported} but the strategy demands {want}"
        self.holders[key] = dict(req)
        self.alloc[key] = list(reported)
        return None

    def release(self, key):
        self.holders.pop(key, None)
        self.alloc.pop(key, None)

    def clone(self):
        m = MWorker(self.cap)
        m.holders = {k: dict(v) for k, v in self.holders.items()}
        m.alloc = {k: list(v) for k, v in self.alloc.items()}
        m.members = {k: set(v) for k, v in self.members.items()}
        return m


def req_of(strategy_spec):
    return {(n, i): q for (n, i, q) in strategy_spec["req"]}


# ----------------------------------------------------------------------------
class LedgerCheck:
    pid = "C04"

    def shard_timeout(self, tier):
        return 900 if tier == "quick" else 7200

    def shards(self, tier, seed):
        n = 40000 if tier == "quick" else 2000000
        k = 16 if tier == "quick" else 64
        specs = [{"seed": seed, "kind": "random", "shard": i, "count": n // k} for i in range(k)]
        for i in range(4 if tier == "quick" else 16):
            specs.append({"seed": seed, "kind": "resources", "shard": i, "count": 3000 if tier == "quick" else 40000})
        for i in range(4 if tier == "quick" else 16):
            specs.append({"seed": seed, "kind": "pool", "shard": i, "count": 1500 if tier == "quick" else 25000})
        specs.append({"seed": seed, "kind": "exhaustive", "maxlen": 4 if tier == "quick" else 5})
        specs.append({"seed": seed, "kind": "e2e", "count": 60 if tier == "quick" else 1500})
        return specs

    def replay_spec(self, case):
        return case["spec"]

    # ------------------------------------------------------------------
    def run_shard(self, spec, workdir):
        if spec["kind"] == "e2e":
            return self._run_e2e(spec, workdir)
        import workload as wl
        import workers as wk
        from utils import EventTime
        self.wl, self.wk, self.ET = wl, wk, EventTime
        self.lg = logging.getLogger("c04")
        self.lg.addHandler(logging.NullHandler())
        self.lg.propagate = False
        self.lg.setLevel(logging.CRITICAL)
        self.viol, self.counters, self.samples = [], {}, []
        self.nontrivial = set()
        self.spec = spec
        if spec["kind"] == "exhaustive":
            self._exhaustive(spec)
        elif spec["kind"] == "resources":
            rng = random.Random(seed_int("c04r", spec["seed"], spec["shard"]))
            for h in range(spec["count"]):
                self._resources_history(rng, h)
        elif spec["kind"] == "pool":
            rng = random.Random(seed_int("c04p", spec["seed"], spec["shard"]))
            for h in range(spec["count"]):
                self._pool_history(rng, h)
        else:
            rng = random.Random(seed_int("c04", spec["seed"], spec["shard"]))
            for h in range(spec["count"]):
                self._history(rng, h)
        return {"viol": self.viol, "counters": self.counters, "samples": self.samples,
                "nontrivial": len(self.nontrivial), "exhaustive": spec["kind"] == "exhaustive"}

    def bump(self, k, n=1):
        self.counters[k] = self.counters.get(k, 0) + n

    def bad(self, kind, detail, hist):
        if len(self.viol) < 40:
            self.viol.append({"kind": kind, "detail": f"{detail}; history={hist}", "case": {"spec": self.spec},
                              "case_id": case_hash(hist)})

    # -- construction helpers ------------------------------------------------
    def mk_resources(self, cap):
        wl = self.wl
        vec = {wl.Resource(name=n, _id=i): q for (n, i), q in cap.items()}
        return wl.Resources(resource_vector=vec, _logger=self.lg)

    def mk_strategy(self, s):
        wl = self.wl
        vec = {wl.Resource(name=n, _id=i): q for (n, i, q) in s["req"]}
        es = wl.ExecutionStrategy(resources=wl.Resources(resource_vector=vec, _logger=self.lg),
                                  batch_size=s.get("batch", 1), runtime=self.ET(s.get("runtime", 3), self.ET.Unit.US))
        if s.get("batch", 1) > 1 or s.get("as_batch"):
            return wl.BatchStrategy(execution_strategy=es)
        return es

    def mk_task(self, k, profile=None):
        wl = self.wl
        job = wl.Job(name=f"J{k}", profile=profile)
        return wl.Task(name=f"T{k}", task_graph="G", job=job, deadline=self.ET(100, self.ET.Unit.US), _logger=self.lg)

    # -- observation through public getters --------------------------------------
    def observe_worker(self, w, cap, tasks, strategies):
        wl = self.wl
        r = w.resources
        o = {"inst": {}, "name": {}, "placed": sorted(t.name for t in w.get_placed_tasks()), "alloc": {}, "fit": {}}
        for (n, i) in cap:
            o["inst"][(n, i)] = r.get_available_quantity(wl.Resource(name=n, _id=i))
        for n in sorted({n for n, _ in cap}):
            a = wl.Resource(name=n, _id="any")
            o["name"][n] = (r.get_available_quantity(a), r.get_allocated_quantity(a), r.get_total_quantity(a))
        for t in w.get_placed_tasks():
            try:
                o["alloc"][t.name] = sorted((res.name, res.id, q) for res, q in w.get_allocated_resources(t))
            except Exception as e:
                o["alloc"][t.name] = f"{type(e).__name__}"
        for k, s in strategies.items():
            o["fit"][k] = bool(w.can_accomodate_strategy(s))
        o["profiles"] = sorted(p.name for p in w.get_available_profiles() + w.get_pending_profiles())
        return o

    def expect_worker(self, m, obs, strategies_spec, hist, label):
        """compare the model with an observation."""
        for name in m.names():
            av, al, tot = obs["name"][name]
            if tot != m.total(name):
                self.bad("total_changed", f"{label}: total {name} = {tot}, configured {m.total(name)}", hist)
            if av + al != tot:
                self.bad("available_plus_allocated", f"{label}: {name}: {av}+{al} != {tot}", hist)
            if av != m.free(name):
                self.bad("available_vs_residents", f"{label}: {name}: available {av}, residents hold {m.demand(name)} of {m.total(name)}", hist)
            if av < 0:
                self.bad("negative_availability", f"{label}: {name}: {av}", hist)
        for (n, i), c in m.cap.items():
            a = obs["inst"][(n, i)]
            if a < 0 or a > c:
                self.bad("instance_out_of_range", f"{label}: {n}:{i} available {a} capacity {c}", hist)
        # per-instance conservation against the model's validated allocations
        f = m.inst_free()
        for (n, i), c in m.cap.items():
            if f[(n, i)] != obs["inst"][(n, i)]:
                self.bad("instance_conservation", f"{label}: {n}:{i} capacity {c}, model says {f[(n, i)]} free, ledger says {obs['inst'][(n, i)]}", hist)
        # residents <-> resources
        exp_placed = sorted(f"T{t}" for key in m.holders if key[0] != "profile" for t in (m.members[key] if key[0] == "batch" else [key[1]]))
        if obs["placed"] != exp_placed:
            self.bad("placed_tasks", f"{label}: get_placed_tasks {obs['placed']} expected {exp_placed}", hist)
        for key in m.holders:
            if key[0] == "profile":
                continue
            for t in (m.members[key] if key[0] == "batch" else [key[1]]):
                al = obs["alloc"].get(f"T{t}")
                if isinstance(al, str):
                    self.bad("allocated_resources_raises", f"{label}: T{t}: {al}", hist)
                elif al is not None and al != sorted(m.alloc.get(key, [])):
                    self.bad("resident_allocation_changed", f"{label}: T{t} now reports {al}, at placement {sorted(m.alloc.get(key, []))}", hist)
        # fit test
        for k, s in strategies_spec.items():
            bkey = ("batch", k)
            if bkey in m.holders:
                continue  # joining a placed batch is judged at the operation
            exp = m.feasible(req_of(s))
            if obs["fit"][k] != exp:
                mixed = len({n for (n, i, q) in s["req"]}) < len(s["req"])
                self.bad("fit_test_disagrees_mixed_any_specific" if mixed else "fit_test_disagrees",
                         f"{label}: can_accomodate_strategy({s['req']}) = {obs['fit'][k]}, model says {exp}; free={ {n: m.free(n) for n in m.names()} }", hist)

    def reported_task(self, w, task):
        return sorted((res.name, res.id, q) for res, q in w.get_allocated_resources(task))

    def reported_profile(self, w, cap, profile):
        out = []
        for (n, i) in cap:
            for comp, q in w.resources.get_allocated_computation(self.wl.Resource(name=n, _id=i)):
                if comp is profile:
                    out.append((n, i, q))
        return sorted(out)

    def admit(self, m, key, req, reported, hist, label, mixed=False):
        err = m.admit(key, req, reported)
        if err:
            self.bad("allocation_inconsistent_mixed_any_specific" if mixed else "allocation_inconsistent",
                     f"{label}: {key}: {err}", hist)
            m.holders[key] = dict(req)
            m.alloc[key] = list(reported)
            return False
        return True

    # -- histories on a WorkerPool of 2-3 workers: pool-wide loads / evictions, pinned placements, pool views, copies --------
    def _pool_history(self, rng, h):
        import copy
        wl, wk = self.wl, self.wk
        hist = []
        nw = rng.randint(2, 3)
        names = NAMES[:rng.randint(1, 2)]
        caps, workers, models = [], [], []
        for wi in range(nw):
            # each worker owns its own instance ids (as a cluster file gives them)
            cap = {(n, f"w{wi}{i}"): rng.choice([1, 2, 2, 3]) for n in names for i in IDS[:rng.choice([1, 1, 2])]}
            caps.append(cap)
            workers.append(wk.Worker(name=f"W{wi}", resources=self.mk_resources(cap), _logger=self.lg))
            models.append(MWorker(cap))
        pool = wk.WorkerPool(name="P", workers=workers, _logger=self.lg)
        pools = wk.WorkerPools([pool])
        sspec = {f"S{k}": {"req": [(n, "any", rng.randint(1, 2)) for n in rng.sample(names, rng.randint(1, len(names)))], "batch": 1}
                 for k in range(rng.randint(2, 3))}
        strategies = {k: self.mk_strategy(v) for k, v in sspec.items()}
        lspec = {"req": [(names[0], "any", 1)], "batch": 1}
        lstrategy = self.mk_strategy(lspec)
        profiles = [wl.WorkProfile(name=f"P{k}") for k in range(2)]
        tasks = [self.mk_task(k) for k in range(6)]
        where = {}      # task index -> worker index
        loaded = {}     # (profile index, worker index) -> True
        hist.append(("init", [sorted((f"{n}:{i}", q) for (n, i), q in c.items()) for c in caps], {k: v["req"] for k, v in sspec.items()}))

        def observe_all():
            return [self.observe_worker(workers[wi], caps[wi], tasks, strategies) for wi in range(nw)]

        def judge(label):
            for wi in range(nw):
                obs = self.observe_worker(workers[wi], caps[wi], tasks, strategies)
                self.expect_worker(models[wi], obs, sspec, hist, f"{label} [W{wi}]")
                exp_prof = sorted(f"P{pk}" for (pk, w2) in loaded if w2 == wi)
                if obs["profiles"] != exp_prof:
                    self.bad("profiles_of_worker", f"{label} [W{wi}]: worker lists {obs['profiles']}, loaded {exp_prof}", hist)
            want = sorted(f"T{t}" for t in where)
            got = sorted(t.name for t in pool.get_placed_tasks())
            if got != want:
                self.bad("placed_tasks", f"{label}: pool.get_placed_tasks {got} expected {want}", hist)

        copies = []
        kinds = set()
        for step in range(rng.randint(3, 12)):
            op = rng.choice(["place", "place", "remove", "load_all", "load_one", "evict_all", "evict_one", "view", "view", "copy", "deepcopy"])
            label = f"step {step} {op}"
            before = observe_all()
            try:
                if op == "place":
                    free = [t for t in range(6) if t not in where]
                    if not free:
                        continue
                    t, k, wi = rng.choice(free), rng.choice(list(sspec)), rng.randrange(nw)
                    pinned = rng.random() < 0.7
                    hist.append((op, f"T{t}", k, f"W{wi}" if pinned else "any worker"))
                    fits = [w2 for w2 in range(nw) if models[w2].feasible(req_of(sspec[k]))]
                    exp_ok = (wi in fits) if pinned else bool(fits)
                    ok = pool.place_task(tasks[t], execution_strategy=strategies[k], worker_id=workers[wi].id if pinned else None)
                    if bool(ok) != exp_ok:
                        self.bad("allocation_disagrees", f"{label}: pool.place_task returned {ok}, model says {'fits' if exp_ok else 'does not fit'} (fits on {fits})", hist)
                    if ok:
                        on = [w2 for w2 in range(nw) if tasks[t] in workers[w2].get_placed_tasks()]
                        if len(on) != 1 or (pinned and on != [wi]):
                            self.bad("task_on_wrong_workers", f"{label}: T{t} resident on workers {on}", hist)
                            break
                        if not self.admit(models[on[0]], ("task", t), req_of(sspec[k]), self.reported_task(workers[on[0]], tasks[t]), hist, label):
                            break
                        where[t] = on[0]
                        kinds.add("place_ok")
                    else:
                        kinds.add("place_refused")
                        if observe_all() != before:
                            self.bad("refused_request_changed_state", f"{label}", hist)
                elif op == "remove":
                    if not where:
                        continue
                    t = rng.choice(sorted(where))
                    hist.append((op, f"T{t}"))
                    pool.remove_task(self.ET.zero(), tasks[t])
                    models[where.pop(t)].release(("task", t))
                    kinds.add("remove")
                elif op in ("load_all", "load_one"):
                    pk = rng.randrange(2)
                    targets = list(range(nw)) if op == "load_all" else [rng.randrange(nw)]
                    if any((pk, wi) in loaded for wi in targets):
                        continue
                    hist.append((op, f"P{pk}", targets))
                    exp_ok = all(models[wi].feasible(req_of(lspec)) for wi in targets)
                    if not exp_ok:
                        continue  # the caller must ask first (Worker.load_profile's contract); a half-done pool-wide load is not judged
                    pool.load_profile(profiles[pk], lstrategy, None if op == "load_all" else workers[targets[0]].id)
                    for wi in targets:
                        if not self.admit(models[wi], ("profile", pk), req_of(lspec), self.reported_profile(workers[wi], caps[wi], profiles[pk]), hist, label):
                            break
                        loaded[(pk, wi)] = True
                    kinds.add(op)
                    self.bump("pool_profile_loads")
                elif op in ("evict_all", "evict_one"):
                    cands = sorted({pk for (pk, wi) in loaded})
                    if not cands:
                        continue
                    pk = rng.choice(cands)
                    on = sorted(wi for (p2, wi) in loaded if p2 == pk)
                    if op == "evict_all" and len(on) != nw:
                        continue  # pool-wide eviction of a profile that is not on every worker raises by contract
                    targets = on if op == "evict_all" else [rng.choice(on)]
                    hist.append((op, f"P{pk}", targets))
                    pool.evict_profile(profiles[pk], None if op == "evict_all" else workers[targets[0]].id)
                    for wi in targets:
                        models[wi].release(("profile", pk))
                        del loaded[(pk, wi)]
                    kinds.add(op)
                    self.bump("pool_profile_evictions")
                elif op == "view":
                    # read-only summaries of the pool (what the simulator logs at every scheduler start): reading must change nothing
                    hist.append((op,))
                    total = pool.resources
                    for n in names:
                        a = wl.Resource(name=n, _id="any")
                        want_total = sum(m.total(n) for m in models)
                        want_free = sum(m.free(n) for m in models)
                        if total.get_total_quantity(a) != want_total or total.get_available_quantity(a) != want_free \
                                or total.get_allocated_quantity(a) != want_total - want_free:
                            self.bad("pool_view_wrong", f"{label}: pool.resources says {n}: total {total.get_total_quantity(a)} available "
                                                        f"{total.get_available_quantity(a)} allocated {total.get_allocated_quantity(a)}; workers hold "
                                                        f"total {want_total} free {want_free}", hist)
                    try:
                        pool.get_utilization()
                    except Exception as e:
                        self.bad("pool_view_raises", f"{label}: get_utilization: {type(e).__name__}: {e}", hist)
                    if observe_all() != before:
                        self.bad("read_only_view_changed_state", f"{label}: reading pool.resources / get_utilization changed a worker's ledger", hist)
                    kinds.add("view")
                    self.bump("pool_views")
                else:
                    hist.append((op,))
                    src = pools if rng.random() < 0.5 else pool
                    c = copy.copy(src) if op == "copy" else copy.deepcopy(src)
                    cws = (list(c.worker_pools)[0] if src is pools else c).workers
                    co = [self.observe_worker(cws[wi], caps[wi], tasks, strategies) for wi in range(nw)]
                    if op == "copy" and co != before:
                        self.bad("copy_differs_from_original", f"{label}: differing getters on workers "
                                                              f"{[wi for wi in range(nw) if co[wi] != before[wi]]}", hist)
                    if op == "deepcopy":
                        for wi in range(nw):
                            self.expect_worker(MWorker(caps[wi]), co[wi], sspec, hist, label + f" (deepcopy must be empty/full) [W{wi}]")
                    if any(cws[wi] is workers[wi] for wi in range(nw)):
                        self.bad("copy_shares_worker", f"{label}: the {op} holds an original Worker object", hist)
                    copies.append((cws, co, op))
                    kinds.add(op)
                    self.bump("copies")
            except Exception as e:
                self.bad(f"unexpected_exception:{type(e).__name__}", f"{label}: {type(e).__name__}: {e}", hist)
                break
            judge(label)
            self.bump("steps")
            for cws, co0, cop in copies:
                con = [self.observe_worker(cws[wi], caps[wi], tasks, strategies) for wi in range(nw)]
                if con != co0:
                    self.bad("copy_not_independent", f"{label}: the {cop} taken earlier changed when the original was mutated", hist)
        # drain
        try:
            for t in sorted(where):
                pool.remove_task(self.ET.zero(), tasks[t])
                models[where[t]].release(("task", t))
            where.clear()
            for (pk, wi) in sorted(loaded):
                pool.evict_profile(profiles[pk], workers[wi].id)
                models[wi].release(("profile", pk))
            loaded.clear()
            hist.append(("drain",))
            judge("after removing everything")
            for wi in range(nw):
                obs = self.observe_worker(workers[wi], caps[wi], tasks, strategies)
                for (n, i), c in caps[wi].items():
                    if obs["inst"][(n, i)] != c:
                        self.bad("not_full_after_drain", f"W{wi} {n}:{i} available {obs['inst'][(n, i)]} capacity {c}", hist)
        except Exception as e:
            self.bad(f"unexpected_exception:{type(e).__name__}", f"drain: {type(e).__name__}: {e}", hist)
        self.bump("pool_histories")
        self.bump("histories")
        for k in kinds:
            self.bump("pkind_" + k)
        if len(kinds) >= 3:
            self.nontrivial.add(case_hash(hist))

    # -- one random history on a Worker / WorkerPool ----------------------------------
    def _history(self, rng, h):
        import copy
        wl, wk = self.wl, self.wk
        hist = []
        nn = rng.randint(1, 3)
        cap = {}
        for n in NAMES[:nn]:
            ni = rng.choice([1, 1, 2, 3])
            for i in IDS[:ni]:
                cap[(n, i)] = rng.choice([0, 1, 1, 2, 2, 3])
        mixed_ok = rng.random() < 0.25
        # strategy menu
        sspec = {}
        for k in range(rng.randint(2, 4)):
            req = []
            for n in rng.sample(NAMES[:nn], rng.randint(1, nn)):
                mode = rng.random()
                if mode < 0.65:
                    req.append((n, "any", rng.randint(1, 3)))
                elif mode < 0.9 or not mixed_ok:
                    req.append((n, rng.choice([i for (nm, i) in cap if nm == n]), rng.randint(1, 2)))
                else:
                    req.append((n, "any", rng.randint(1, 2)))
                    req.append((n, rng.choice([i for (nm, i) in cap if nm == n]), 1))
            sspec[f"S{k}"] = {"req": req, "batch": 1}
        for k in range(rng.randint(0, 2)):
            n = rng.choice(NAMES[:nn])
            sspec[f"B{k}"] = {"req": [(n, "any", rng.randint(1, 2))], "batch": rng.randint(2, 3)}
        strategies = {k: self.mk_strategy(s) for k, s in sspec.items()}
        profile = wl.WorkProfile(name="P0")
        lspec = {"req": [(NAMES[0], "any", 1)], "batch": 1}
        lstrategy = self.mk_strategy(lspec)
        tasks = [self.mk_task(k) for k in range(5)]
        use_pool = rng.random() < 0.35
        worker = wk.Worker(name="W0", resources=self.mk_resources(cap), _logger=self.lg)
        m = MWorker(cap)
        pool = None
        pools = None
        if use_pool:
            pool = wk.WorkerPool(name="P", workers=[worker], _logger=self.lg)
            if rng.random() < 0.5:
                # copies are then taken at the WorkerPools level (what the policies copy)
                pools = wk.WorkerPools([pool])
        hist.append(("init", sorted((f"{n}:{i}", q) for (n, i), q in cap.items()), {k: s["req"] + [("batch", s["batch"])] for k, s in sspec.items()}, "pool" if use_pool else "worker"))
        kinds = set()
        copies = []  # (obj, model, label)
        nops = rng.randint(2, 12)
        for step in range(nops):
            op = rng.choice(["place", "place", "place", "remove", "remove", "remove_bad", "copy", "deepcopy",
                             "load", "evict", "place_over", "mutate_copy"])
            before = self.observe_worker(worker, cap, tasks, strategies)
            label = f"step {step} {op}"
            try:
                if op in ("place", "place_over"):
                    t = rng.randrange(5)
                    k = rng.choice(list(sspec))
                    s = sspec[k]
                    resident = any((key[0] == "task" and key[1] == t) or (key[0] == "batch" and t in m.members[key]) for key in m.holders)
                    if resident:
                        continue  # placing a resident task twice is outside the API contract
                    hist.append((op, f"T{t}", k))
                    bkey = ("batch", k)
                    if s["batch"] > 1 and bkey in m.holders:
                        exp_ok = len(m.members[bkey]) < s["batch"]
                        joins = True
                    else:
                        exp_ok = m.feasible(req_of(s))
                        joins = False
                    ok = True
                    try:
                        if pool is not None:
                            ok = pool.place_task(tasks[t], execution_strategy=strategies[k], worker_id=rng.choice([None, worker.id]))
                        else:
                            # "place": the caller asks first, as WorkerPool does; "place_over": the request goes straight to
                            # Worker.place_task, whose own refusal (an exception) must leave no trace either
                            if op == "place" and not worker.can_accomodate_strategy(strategies[k]):
                                raise Refused()
                            if op == "place_over":
                                self.bump("direct_place_task_calls")
                            worker.place_task(tasks[t], strategies[k])
                    except (ValueError, RuntimeError, Refused):
                        ok = False
                    kinds.add("place_ok" if ok else "place_refused")
                    mixed = len({n for (n, i, q) in s["req"]}) < len(s["req"])
                    if ok != exp_ok:
                        self.bad("allocation_disagrees_mixed_any_specific" if mixed else "allocation_disagrees",
                                 f"{label}: place T{t} with {s} {'accepted' if ok else 'refused'}, model says {'fits' if exp_ok else 'does not fit'}", hist)
                    if ok:
                        try:
                            rep = self.reported_task(worker, tasks[t])
                        except Exception as e:
                            self.bad("allocated_resources_raises", f"{label}: T{t}: {type(e).__name__}: {e}", hist)
                            break
                        if s["batch"] > 1:
                            if not joins:
                                m.members[bkey] = set()
                                if not self.admit(m, bkey, req_of(s), rep, hist, label, mixed):
                                    break
                            elif rep != sorted(m.alloc[bkey]):
                                self.bad("batch_member_allocation", f"{label}: T{t} joined batch {k} but reports {rep}, the batch holds {sorted(m.alloc[bkey])}", hist)
                            m.members[bkey].add(t)
                            self.bump("batch_place")
                        else:
                            if not self.admit(m, ("task", t), req_of(s), rep, hist, label, mixed):
                                break
                        self.bump("placed")
                    else:
                        self.bump("refused")
                        after = self.observe_worker(worker, cap, tasks, strategies)
                        if after != before:
                            self.bad("refused_request_changed_state_mixed_any_specific" if mixed else "refused_request_changed_state",
                                     f"{label}: before {before} after {after}", hist)
                elif op == "remove":
                    res = [key for key in m.holders if key[0] != "profile"]
                    if not res:
                        continue
                    key = rng.choice(res)
                    t = rng.choice(sorted(m.members[key])) if key[0] == "batch" else key[1]
                    hist.append((op, f"T{t}"))
                    if pool is not None:
                        pool.remove_task(self.ET.zero(), tasks[t])
                    else:
                        worker.remove_task(self.ET.zero(), tasks[t])
                    if key[0] == "batch":
                        m.members[key].discard(t)
                        if not m.members[key]:
                            del m.members[key]
                            m.release(key)
                            kinds.add("batch_emptied")
                    else:
                        m.release(key)
                    self.bump("removed")
                    kinds.add("remove")
                elif op == "remove_bad":
                    nonres = [t for t in range(5) if not any((key[0] == "task" and key[1] == t) or (key[0] == "batch" and t in m.members[key]) for key in m.holders)]
                    if not nonres:
                        continue
                    t = rng.choice(nonres)
                    hist.append((op, f"T{t}"))
                    try:
                        (pool or worker).remove_task(self.ET.zero(), tasks[t])
                        self.bad("remove_of_non_resident_accepted", f"{label}", hist)
                    except (ValueError, RuntimeError):
                        self.bump("refused")
                        kinds.add("remove_refused")
                    after = self.observe_worker(worker, cap, tasks, strategies)
                    if after != before:
                        self.bad("refused_request_changed_state", f"{label}: before {before} after {after}", hist)
                elif op == "load":
                    if ("profile", 0) in m.holders or pool is not None and rng.random() < 0.5:
                        continue
                    hist.append((op,))
                    exp_ok = m.feasible(req_of(lspec))
                    try:
                        if pool is not None:
                            pool.load_profile(profile, lstrategy, worker.id)
                        else:
                            worker.load_profile(profile, lstrategy)
                        ok = True
                    except ValueError:
                        ok = False
                    if ok != exp_ok:
                        self.bad("allocation_disagrees", f"{label}: load {'accepted' if ok else 'refused'} but model says {exp_ok}", hist)
                    if ok:
                        if not self.admit(m, ("profile", 0), req_of(lspec), self.reported_profile(worker, cap, profile), hist, label):
                            break
                        kinds.add("load")
                    else:
                        after = self.observe_worker(worker, cap, tasks, strategies)
                        if after != before:
                            self.bad("refused_request_changed_state", f"{label}", hist)
                elif op == "evict":
                    hist.append((op,))
                    if ("profile", 0) in m.holders:
                        (pool.evict_profile(profile, worker.id) if pool is not None else worker.evict_profile(profile))
                        m.release(("profile", 0))
                        kinds.add("evict")
                    else:
                        try:
                            (pool.evict_profile(profile, worker.id) if pool is not None else worker.evict_profile(profile))
                            self.bad("evict_of_unloaded_accepted", label, hist)
                        except ValueError:
                            self.bump("refused")
                        after = self.observe_worker(worker, cap, tasks, strategies)
                        if after != before:
                            self.bad("refused_request_changed_state", f"{label}", hist)
                elif op in ("copy", "deepcopy"):
                    hist.append((op,))
                    src = pools if pools is not None else (pool if pool is not None else worker)
                    c = copy.copy(src) if op == "copy" else copy.deepcopy(src)
                    if pools is not None:
                        cw = list(c.worker_pools)[0].workers[0]
                        self.bump("copies_of_worker_pools")
                        if op == "copy" and pool.is_full():
                            self.bump("copies_of_saturated_worker_pools")
                    else:
                        cw = c.workers[0] if pool is not None else c
                    if cw is worker:
                        self.bad("copy_shares_worker", f"{label}: the {op} holds the original Worker object", hist)
                    cm = m.clone() if op == "copy" else MWorker(cap)
                    co = self.observe_worker(cw, cap, tasks, strategies)
                    if op == "copy":
                        if co != before:
                            diff = {k: (before[k], co[k]) for k in before if before[k] != co[k]}
                            batch_live = any(key[0] == "batch" for key in m.holders)
                            self.bad("copy_differs_from_original_with_batch" if batch_live else "copy_differs_from_original",
                                     f"{label}: differing getters {diff}", hist)
                        if pool is not None and sorted(t.name for t in c.get_placed_tasks()) != sorted(t.name for t in src.get_placed_tasks()):
                            self.bad("copy_differs_from_original", f"{label}: pool placed tasks differ", hist)
                    else:
                        self.expect_worker(cm, co, {k: s for k, s in sspec.items()}, hist, label + " (deepcopy must be empty/full)")
                    if cw.id != worker.id:
                        self.bad("copy_changes_identity", f"{label}: worker id changed", hist)
                    copies.append((c, cw, cm, op, co))
                    self.bump("copies")
                    kinds.add(op)
                elif op == "mutate_copy":
                    if not copies:
                        continue
                    c, cw, cm, cop, _ = rng.choice(copies)
                    k = rng.choice([kk for kk, s in sspec.items() if s["batch"] == 1])
                    t = rng.randrange(5)
                    if any((key[0] == "task" and key[1] == t) or (key[0] == "batch" and t in cm.members[key]) for key in cm.holders):
                        continue
                    hist.append((op, cop, f"T{t}", k))
                    plain = [key for key in cm.holders if key[0] != "profile"]
                    if plain and rng.random() < 0.45:
                        # remove a resident of the copy (a plain task or a member of a batch): the original must keep it,
                        # and the copy must follow its own history like any worker (a batch is released with its last member)
                        key = rng.choice(plain)
                        rt = rng.choice(sorted(cm.members[key])) if key[0] == "batch" else key[1]
                        hist.append(("copy_remove", f"T{rt}"))
                        cw.remove_task(self.ET.zero(), tasks[rt])
                        if key[0] == "batch":
                            cm.members[key].discard(rt)
                            self.bump("removed_batch_member_on_copy")
                            if not cm.members[key]:
                                del cm.members[key]
                                cm.release(key)
                                self.bump("batch_emptied_on_copy")
                                if any(k2[0] == "batch" for k2 in cm.holders):
                                    self.bump("batch_emptied_on_copy_beside_another_batch")
                        else:
                            cm.release(key)
                        self.bump("removed_on_copy")
                        if cop == "copy":
                            self.expect_worker(cm, self.observe_worker(cw, cap, tasks, strategies), sspec, hist, label + " (state of the copy)")
                        for ci, ent in enumerate(copies):
                            if ent[1] is cw:
                                copies[ci] = (ent[0], ent[1], ent[2], ent[3], self.observe_worker(cw, cap, tasks, strategies))
                    elif cm.feasible(req_of(sspec[k])) and cw.can_accomodate_strategy(strategies[k]):
                        try:
                            cw.place_task(tasks[t], strategies[k])
                            cm.admit(("task", t), req_of(sspec[k]), self.reported_task(cw, tasks[t]))
                        except ValueError:
                            pass
                        # the copy moved on purpose: refresh its reference observation
                        for ci, ent in enumerate(copies):
                            if ent[1] is cw:
                                copies[ci] = (ent[0], ent[1], ent[2], ent[3], self.observe_worker(cw, cap, tasks, strategies))
                    after = self.observe_worker(worker, cap, tasks, strategies)
                    if after != before:
                        self.bad("copy_not_independent", f"{label}: mutating the {cop} changed the original: {before} -> {after}", hist)
                    kinds.add("mutate_copy")
            except Exception as e:
                self.bad(f"unexpected_exception:{type(e).__name__}", f"{label}: {type(e).__name__}: {e}", hist)
                break
            obs = self.observe_worker(worker, cap, tasks, strategies)
            self.expect_worker(m, obs, sspec, hist, label)
            self.bump("steps")
            # earlier copies must not have moved
            for c, cw, cm, cop, co0 in copies:
                if op != "mutate_copy":
                    con = self.observe_worker(cw, cap, tasks, strategies)
                    if con != co0:
                        self.bad("copy_not_independent", f"{label}: the {cop} taken earlier changed when the original was mutated", hist)
        # drain the shallow copies first: each must return to full capacity on its own
        try:
            for c, cw, cm, cop, _ in copies:
                if cop != "copy" or not any(key[0] != "profile" for key in cm.holders):
                    continue
                for key in list(cm.holders):
                    if key[0] == "profile":
                        continue
                    for t in (sorted(cm.members[key]) if key[0] == "batch" else [key[1]]):
                        cw.remove_task(self.ET.zero(), tasks[t])
                    cm.members.pop(key, None)
                    cm.release(key)
                hist.append(("drain_copy",))
                self.bump("copies_drained")
                self.expect_worker(cm, self.observe_worker(cw, cap, tasks, strategies), sspec, hist, "after removing every task from a shallow copy")
        except Exception as e:
            self.bad(f"unexpected_exception:{type(e).__name__}", f"draining a copy: {type(e).__name__}: {e}", hist)
        # drain: remove everything, full capacity must return
        try:
            for key in list(m.holders):
                if key[0] == "profile":
                    (pool.evict_profile(profile, worker.id) if pool is not None else worker.evict_profile(profile))
                elif key[0] == "batch":
                    for t in sorted(m.members[key]):
                        (pool or worker).remove_task(self.ET.zero(), tasks[t])
                else:
                    (pool or worker).remove_task(self.ET.zero(), tasks[key[1]])
            m.holders.clear()
            m.alloc.clear()
            m.members.clear()
            hist.append(("drain",))
            obs = self.observe_worker(worker, cap, tasks, strategies)
            self.expect_worker(m, obs, sspec, hist, "after removing everything")
            for (n, i), c in cap.items():
                if obs["inst"][(n, i)] != c:
                    self.bad("not_full_after_drain", f"{n}:{i} available {obs['inst'][(n, i)]} capacity {c}", hist)
            if pool is not None and not pool.is_full() and all(c == 0 for c in cap.values()):
                pass
        except Exception as e:
            self.bad(f"unexpected_exception:{type(e).__name__}", f"drain: {type(e).__name__}: {e}", hist)
        self.bump("histories")
        for k in kinds:
            self.bump("kind_" + k)
        if len(kinds) >= 3:
            self.nontrivial.add(case_hash(hist))
        if len(self.samples) < 2 and len(hist) > 5:
            self.samples.append({"history": [list(map(str, x)) for x in hist]})

    # -- direct histories on Resources objects (several allocations per computation, copies that
    #    keep being used, every live object observed after every step) -----------------------------
    def _resources_history(self, rng, h):
        import copy
        wl = self.wl
        nn = rng.randint(1, 2)
        cap = {}
        for n in NAMES[:nn]:
            for i in IDS[:rng.choice([1, 2, 3])]:
                cap[(n, i)] = rng.choice([1, 2, 2, 3])
        insts = sorted(cap)
        keys = [self.mk_task(k) for k in range(3)] + [wl.WorkProfile(name="P0")]
        hist = [("resources", sorted((f"{n}:{i}", q) for (n, i), q in cap.items()))]

        def observe(r):
            av = {ni: r.get_available_quantity(wl.Resource(name=ni[0], _id=ni[1])) for ni in insts}
            al = {ni: sorted((c.name, q) for c, q in r.get_allocated_computation(wl.Resource(name=ni[0], _id=ni[1]))) for ni in insts}
            by_name = {n: r.get_available_quantity(wl.Resource(name=n, _id="any")) for n in NAMES[:nn]}
            alq = {n: r.get_allocated_quantity(wl.Resource(name=n, _id="any")) for n in NAMES[:nn]}
            return {"avail": av, "alloc": al, "avail_by_name": by_name, "allocated_by_name": alq}

        def consistent(o, label):
            for ni in insts:
                held = sum(q for _, q in o["alloc"][ni])
                if o["avail"][ni] + held != cap[ni] or o["avail"][ni] < 0:
                    self.bad("ledger_not_conserved", f"{label}: {ni[0]}:{ni[1]} available {o['avail'][ni]} + allocated {held} != total {cap[ni]}", hist)
                    return False
            for n in NAMES[:nn]:
                tot = sum(q for (nm, _), q in cap.items() if nm == n)
                s_av = sum(o["avail"][ni] for ni in insts if ni[0] == n)
                if o["avail_by_name"][n] != s_av or o["allocated_by_name"][n] != tot - s_av:
                    self.bad("getter_disagrees", f"{label}: {n}: by-name available {o['avail_by_name'][n]} / allocated {o['allocated_by_name'][n]}, instances say {s_av} of {tot}", hist)
                    return False
            return True
        objs = [self.mk_resources(cap)]
        kinds = set()
        for step in range(rng.randint(3, 12)):
            x = rng.randrange(len(objs))
            r = objs[x]
            before = [observe(o) for o in objs]
            op = rng.choice(["allocate", "allocate", "allocate", "allocate_multiple", "deallocate", "deallocate", "copy", "deepcopy"])
            label = f"step {step} {op} on object {x}"
            try:
                if op == "allocate":
                    n = rng.choice(NAMES[:nn])
                    i = rng.choice(["any", "any"] + [ii for (nm, ii) in insts if nm == n])
                    k = rng.randrange(len(keys))
                    q = rng.randint(1, 3)
                    hist.append((op, x, f"{n}:{i}", keys[k].name, q))
                    have = before[x]["avail_by_name"][n] if i == "any" else before[x]["avail"][(n, i)]
                    try:
                        r.allocate(wl.Resource(name=n, _id=i), keys[k], q)
                        ok = True
                    except ValueError:
                        ok = False
                    if ok != (have >= q):
                        self.bad("allocation_disagrees", f"{label}: {q} of {n}:{i} {'accepted' if ok else 'refused'} with {have} available", hist)
                    after = observe(r)
                    if ok:
                        kinds.add("allocate_again" if any(keys[k].name == c for ni in insts for c, _ in before[x]["alloc"][ni]) else "allocate")
                        got = {ni: sum(qq for c, qq in after["alloc"][ni] if c == keys[k].name) - sum(qq for c, qq in before[x]["alloc"][ni] if c == keys[k].name) for ni in insts}
                        if sum(got.values()) != q or any(v < 0 for v in got.values()) or any(v and (ni[0] != n or (i != "any" and ni[1] != i)) for ni, v in got.items()):
                            self.bad("allocation_wrong_amount_or_place", f"{label}: ledger recorded {got}", hist)
                    elif after != before[x]:
                        self.bad("refused_request_changed_state", f"{label}", hist)
                elif op == "allocate_multiple":
                    k = rng.randrange(len(keys))
                    req = {}
                    for n in rng.sample(NAMES[:nn], rng.randint(1, nn)):
                        req[(n, "any")] = rng.randint(1, 2)
                    hist.append((op, x, sorted(req.items()), keys[k].name))
                    fits = all(before[x]["avail_by_name"][n] >= q for (n, _), q in req.items())
                    try:
                        r.allocate_multiple(wl.Resources(resource_vector={wl.Resource(name=n, _id=i): q for (n, i), q in req.items()}, _logger=self.lg), keys[k])
                        ok = True
                    except ValueError:
                        ok = False
                    if ok != fits:
                        self.bad("allocation_disagrees", f"{label}: {req} {'accepted' if ok else 'refused'}, available {before[x]['avail_by_name']}", hist)
                    if not ok and observe(r) != before[x]:
                        self.bad("refused_request_changed_state", f"{label}", hist)
                    kinds.add("allocate_multiple")
                elif op == "deallocate":
                    k = rng.randrange(len(keys))
                    held = {ni: sum(qq for c, qq in before[x]["alloc"][ni] if c == keys[k].name) for ni in insts}
                    if not any(held.values()):
                        continue  # whether an unknown computation is refused depends on earlier getter calls (defaultdict): not judged
                    hist.append((op, x, keys[k].name))
                    r.deallocate(keys[k])
                    after = observe(r)
                    for ni in insts:
                        if after["avail"][ni] != before[x]["avail"][ni] + held[ni]:
                            self.bad("deallocate_returns_wrong_amount", f"{label}: {ni[0]}:{ni[1]} available {before[x]['avail'][ni]} -> {after['avail'][ni]}, the computation held {held[ni]}", hist)
                            break
                        if any(c == keys[k].name for c, _ in after["alloc"][ni]):
                            self.bad("deallocate_leaves_allocation", f"{label}: {ni}", hist)
                            break
                    kinds.add("deallocate")
                else:
                    hist.append((op, x))
                    c = copy.copy(r) if op == "copy" else copy.deepcopy(r)
                    co = observe(c)
                    if op == "copy" and co != before[x]:
                        self.bad("copy_differs_from_original", f"{label}: {before[x]} vs {co}", hist)
                    if op == "deepcopy" and any(co["avail"][ni] != cap[ni] for ni in insts):
                        self.bad("deepcopy_not_full", f"{label}: {co['avail']}", hist)
                    if len(objs) < 4:
                        objs.append(c)
                        before.append(co)
                    kinds.add(op)
            except Exception as e:
                self.bad(f"unexpected_exception:{type(e).__name__}", f"{label}: {type(e).__name__}: {e}", hist)
                break
            stop = False
            for y, o in enumerate(objs):
                now_o = observe(o)
                if not consistent(now_o, f"{label}, object {y}"):
                    stop = True
                    break
                if y != x and y < len(before) and now_o != before[y]:
                    self.bad("copy_not_independent", f"{label}: object {y} changed: {before[y]} -> {now_o}", hist)
                    stop = True
                    break
            self.bump("steps")
            self.bump("resources_steps")
            if stop:
                break
        self.bump("histories")
        self.bump("resources_histories")
        for k in kinds:
            self.bump("rkind_" + k)
        if len(kinds) >= 3:
            self.nontrivial.add(case_hash(hist))

    # -- exhaustive sweep over a 9-op alphabet ----------------------------------------
    def _exhaustive(self, spec):
        wl, wk = self.wl, self.wk
        import copy
        cap = {("A", "x"): 2, ("A", "y"): 1}
        sspec = {"S2": {"req": [("A", "any", 2)], "batch": 1}, "S1": {"req": [("A", "any", 1)], "batch": 1},
                 "SX": {"req": [("A", "x", 1)], "batch": 1}, "B": {"req": [("A", "any", 1)], "batch": 2}}
        alphabet = [("place", 0, "S2"), ("place", 1, "S1"), ("place", 2, "SX"), ("place", 0, "B"), ("place", 1, "B"),
                    ("remove", 0), ("remove", 1), ("remove", 2), ("copy",)]
        for L in range(1, spec["maxlen"] + 1):
            for seq in itertools.product(range(len(alphabet)), repeat=L):
                strategies = {k: self.mk_strategy(s) for k, s in sspec.items()}
                tasks = [self.mk_task(k) for k in range(3)]
                worker = wk.Worker(name="W0", resources=self.mk_resources(cap), _logger=self.lg)
                m = MWorker(cap)
                hist = [("exhaustive",)]
                for oi in seq:
                    op = alphabet[oi]
                    hist.append(op)
                    before = self.observe_worker(worker, cap, tasks, strategies)
                    try:
                        if op[0] == "place":
                            t, k = op[1], op[2]
                            s = sspec[k]
                            if any((key[0] == "task" and key[1] == t) or (key[0] == "batch" and t in m.members[key]) for key in m.holders):
                                continue
                            bkey = ("batch", k)
                            joins = s["batch"] > 1 and bkey in m.holders
                            exp_ok = (len(m.members[bkey]) < s["batch"]) if joins else m.feasible(req_of(s))
                            ok = True
                            try:
                                if not worker.can_accomodate_strategy(strategies[k]):
                                    raise Refused()
                                worker.place_task(tasks[t], strategies[k])
                            except (ValueError, RuntimeError, Refused):
                                ok = False
                            if ok != exp_ok:
                                self.bad("allocation_disagrees", f"place T{t} {k}: {'accepted' if ok else 'refused'} vs model {exp_ok}", hist)
                            if ok:
                                rep = self.reported_task(worker, tasks[t])
                                if s["batch"] > 1:
                                    if not joins:
                                        m.members[bkey] = set()
                                        self.admit(m, bkey, req_of(s), rep, hist, f"place T{t} {k}")
                                    elif rep != sorted(m.alloc[bkey]):
                                        self.bad("batch_member_allocation", f"T{t} joined batch {k} but reports {rep}", hist)
                                    m.members[bkey].add(t)
                                else:
                                    self.admit(m, ("task", t), req_of(s), rep, hist, f"place T{t} {k}")
                            elif self.observe_worker(worker, cap, tasks, strategies) != before:
                                self.bad("refused_request_changed_state", f"place T{t} {k}", hist)
                        elif op[0] == "remove":
                            t = op[1]
                            key = next((key for key in m.holders if (key[0] == "task" and key[1] == t) or (key[0] == "batch" and t in m.members[key])), None)
                            if key is None:
                                try:
                                    worker.remove_task(self.ET.zero(), tasks[t])
                                    self.bad("remove_of_non_resident_accepted", f"T{t}", hist)
                                except (ValueError, RuntimeError):
                                    pass
                                if self.observe_worker(worker, cap, tasks, strategies) != before:
                                    self.bad("refused_request_changed_state", f"remove T{t}", hist)
                            else:
                                worker.remove_task(self.ET.zero(), tasks[t])
                                if key[0] == "batch":
                                    m.members[key].discard(t)
                                    if not m.members[key]:
                                        del m.members[key]
                                        m.release(key)
                                else:
                                    m.release(key)
                        else:
                            c = copy.copy(worker)
                            co = self.observe_worker(c, cap, tasks, strategies)
                            if co != before:
                                batch_live = any(key[0] == "batch" for key in m.holders)
                                self.bad("copy_differs_from_original_with_batch" if batch_live else "copy_differs_from_original",
                                         f"differing getters { {k: (before[k], co[k]) for k in before if before[k] != co[k]} }", hist)
                    except Exception as e:
                        self.bad(f"unexpected_exception:{type(e).__name__}", f"{type(e).__name__}: {e}", hist)
                        break
                    self.expect_worker(m, self.observe_worker(worker, cap, tasks, strategies), sspec, hist, f"after {op}")
                    self.bump("steps")
                self.bump("histories")
                self.bump("exhaustive_histories")
                if L >= 3:
                    self.nontrivial.add(case_hash(hist))
        self.samples.append({"exhaustive_alphabet": [list(map(str, a)) for a in alphabet], "vector": "A:x=2, A:y=1",
                             "max_length": spec["maxlen"]})

    # -- e2e part --------------------------------------------------------------------
    def _run_e2e(self, spec, workdir):
        import os
        import shutil
        from .. import e2e, worldgen
        viol, counters = [], {}
        n = 0
        for idx in range(spec["count"]):
            world = worldgen.gen_world(spec["seed"], idx, "greedy" if idx % 3 else "clockwork")
            wd = os.path.join(workdir, f"w{idx}")
            ctx = e2e.run_world(world, wd, opts={"csvreader": False})
            shutil.rmtree(wd, ignore_errors=True)
            n += 1
            for k in ("idle_capacity_checks", "live_place", "live_load"):
                counters["e2e_" + k] = counters.get("e2e_" + k, 0) + ctx.counters.get(k, 0)
            for v in ctx.violations:
                if v["prop"] == "C04":
                    viol.append({"kind": v["kind"], "detail": v["detail"], "case": {"spec": dict(spec, count=idx + 1)},
                                 "case_id": f"e2e/{idx}"})
        counters["e2e_worlds"] = n
        return {"viol": viol, "counters": counters, "samples": [], "nontrivial": 0, "exhaustive": False}

    # ------------------------------------------------------------------
    def conclude(self, results, tier, seed):
        viol = [v for r in results for v in r["viol"]]
        tot = {}
        for r in results:
            for k, v in r["counters"].items():
                tot[k] = tot.get(k, 0) + v
        need = {"kind_place_ok": 500, "kind_place_refused": 500, "kind_remove": 500, "kind_remove_refused": 300,
                "kind_copy": 500, "kind_deepcopy": 300, "kind_load": 300, "kind_evict": 200, "kind_mutate_copy": 200,
                "kind_batch_emptied": 100, "e2e_idle_capacity_checks": 1000, "direct_place_task_calls": 1000,
                "copies_of_worker_pools": 1000, "copies_of_saturated_worker_pools": 100, "removed_on_copy": 100, "copies_drained": 1000, "removed_batch_member_on_copy": 30,
                "pool_histories": 3000, "pool_views": 2000, "pool_profile_loads": 1000, "pool_profile_evictions": 300,
                "pkind_load_all": 300, "pkind_evict_all": 50}
        inconclusive = [f"{k} seen {tot.get(k, 0)} times (< {v})" for k, v in need.items() if tot.get(k, 0) < v]
        if tot.get("histories", 0) < (30000 if tier == "quick" else 1000000):
            inconclusive.append(f"only {tot.get('histories', 0)} histories")
        cov = {"evaluations": tot.get("histories", 0) + tot.get("e2e_worlds", 0),
               "distinct_nontrivial": sum(r["nontrivial"] for r in results),
               "rule": "random operation histories (2-12 ops: place / place-in-batch / remove / illegal remove / load / evict / copy / "
                       "deepcopy / mutate-a-copy (place or remove on it), then drain) on a Worker, a single-worker WorkerPool or a WorkerPools around it (copies taken at that level) over 1-3 resource names x 1-3 "
                       "instances x quantity 0-3 with 'any' and specific-id requests, plus every sequence of length <= 4 over a 9-op "
                       "alphabet on the vector A:x=2,A:y=1, plus histories on a pool of 2-3 workers (pinned / unpinned placements, pool-wide and "
                       "per-worker profile loads and evictions, the read-only pool views `resources` / `get_utilization`, copies); after every step all public getters are compared with an independent "
                       "occupancy model; non-trivial = a history with >= 3 different operation outcomes (hash of the history)",
               "samples": [s for r in results for s in r["samples"]][:5],
               "exhaustive": False,
               "counters": tot}
        return {"violations": viol, "coverage": cov, "inconclusive": inconclusive,
                "assumptions": ["the independent model decides fit by instance-level feasibility (specific ids first, 'any' from the rest)"]}


def get_check(pid):
    return LedgerCheck()
