"""C12: deadline enforcement — no plan that misses a deadline, hopeless tasks dropped.

(1) output check on every live and shadow schedule() call of an enforcing policy inside
    end-to-end runs with tight deadlines; (2) probes of the captured solver models
    (ILP: maximise completion subject to 'placed'; TetriSched: inspection of every
    space-time placement variable); (3) completion times of planner runs with exact
    runtimes."""
from .e2e_checks import E2ECheck, RULES, BASE_MIX
from .. import probes

CANCELLERS = ("EDFScheduler", "FIFOScheduler", "ClockworkScheduler", "TetriSchedCPLEXScheduler")
LEAVERS = ("ILPScheduler", "TetriSchedGurobiScheduler")
PLANNERS = ("ILPScheduler", "TetriSchedGurobiScheduler", "TetriSchedCPLEXScheduler", "ClockworkScheduler")
RULES["C12"] = ("a world in which an enforcing policy was offered a task that could no longer meet its deadline, or "
                "one whose deadline was exactly tight (deadline == now + fastest runtime)",
                lambda s: s["counters"].get("c12_hopeless", 0) + s["counters"].get("c12_exactly_tight", 0) > 0, 50)


def c12_hook(ctx, call, pol, sim_time, workload, pools):
    name = call["policy"]
    if not getattr(pol, "enforce_deadlines", False) or name in ("Z3Scheduler", "LSFScheduler"):
        return
    import workload as wl
    PT = wl.Placement.PlacementType
    now = call["t"]
    rtg = bool(getattr(pol, "release_taskgraphs", False))
    ilp_conditional = name == "ILPScheduler" and rtg  # enforcement is conditional there: not judged
    ctx.count("c12_enforcing_calls")
    dec = {}
    for p in call["placements"]:
        if p.placement_type in (PT.PLACE_TASK, PT.CANCEL_TASK):
            dec[id(p.task)] = p
    tag = f"{name}{' (shadow)' if call.get('shadow') else ''} t={now}"
    for t in call.get("offered") or []:
        st = call["states"].get(id(t))
        if st in ("SCHEDULED", "RUNNING"):
            continue
        fastest = min(s.runtime.time for s in t.available_execution_strategies)
        slack = t.deadline.time - (now + fastest)
        if slack == 0:
            ctx.count("c12_exactly_tight")
        if slack >= 0 or ilp_conditional:
            continue
        ctx.count("c12_hopeless")
        p = dec.get(id(t))
        if p is not None and p.placement_type == PT.PLACE_TASK and p.is_placed():
            ctx.violate("C12", "hopeless_task_placed", f"{tag}: {t.unique_name} deadline {t.deadline.time} < now + fastest {fastest} but placed at {p.placement_time.time}", policy=name)
        elif name in CANCELLERS and (p is None or p.placement_type != PT.CANCEL_TASK):
            ctx.violate("C12", "hopeless_task_not_cancelled", f"{tag}: {t.unique_name} deadline {t.deadline.time} < now + fastest {fastest}, answered with "
                                                              f"{'nothing' if p is None else 'an unplaced PLACE_TASK'}", policy=name)
        elif name in LEAVERS and p is not None and p.placement_type == PT.CANCEL_TASK:
            pass  # stronger than required
    if name in PLANNERS and not ilp_conditional:
        for p in call["placements"]:
            if p.placement_type == PT.PLACE_TASK and p.is_placed() and p.execution_strategy is not None:
                ctx.count("c12_planner_placements")
                fin = p.placement_time.time + p.execution_strategy.runtime.time
                if fin > p.task.deadline.time:
                    ctx.violate("C12", "placement_completes_after_deadline",
                                f"{tag}: {p.task.unique_name} at {p.placement_time.time} + runtime {p.execution_strategy.runtime.time} = {fin} > deadline {p.task.deadline.time}", policy=name)
    model = probes.take(pol)
    if model is not None and not ilp_conditional and ctx.counters.get("probes", 0) < 150:
        ctx.count("c12_models")
        try:
            probes.probe_deadlines(model, now, ctx.counters,
                                   lambda kind, detail: ctx.violate("C12", kind, f"{tag}: {detail}", policy=name),
                                   enforced=lambda task: True)
        except Exception as e:
            if type(e).__name__ == "GurobiError" and "size-limited" in str(e):
                ctx.count("probe_tooling_limit")
            else:
                raise


class DeadlineCheck(E2ECheck):
    def __init__(self):
        super().__init__("C12")

    def opts(self):
        return {"shadow_policies": True, "csvreader": False, "decision_hooks": [c12_hook]}

    def mix(self, tier):
        tight = [(0, 0), (0, 0), (0, 20), (10, 50), (50, 100)]
        return [("greedy", {"scheduler_choices": ["EDF"], "flags": {"enforce_deadlines": True}, "deadline_variances": tight, "variances": [0]}, 0.2),
                ("planner", {"scheduler": "ILP", "flags": {"enforce_deadlines": True, "release_taskgraphs": False, "ilp_goal": "max_goodput", "runtime_variance": 0},
                             "deadline_variances": tight, "loop_timeout": 120}, 0.25),
                ("planner", {"scheduler": "TetriSched_Gurobi", "flags": {"enforce_deadlines": True, "runtime_variance": 0, "scheduler_plan_ahead": 15},
                             "deadline_variances": tight, "loop_timeout": 120}, 0.2),
                ("planner", {"scheduler": "TetriSched_CPLEX", "flags": {"enforce_deadlines": True, "runtime_variance": 0, "scheduler_plan_ahead": 12},
                             "deadline_variances": tight, "loop_timeout": 100}, 0.15),
                ("clockwork", {}, 0.2)] + [(pr, ov, 0.06) for pr, ov, _ in BASE_MIX if ov.get("small_burst")]

    def run_shard(self, spec, workdir):
        probes.install()
        return super().run_shard(spec, workdir)

    def summarize(self, world, ctx, spec, idx):
        # (3) planner runs with exact runtimes: every completed task met its deadline
        fl = world["flags"]
        exact = fl.get("runtime_variance", 0) == 0 and fl.get("enforce_deadlines")
        conditional = fl["scheduler"] == "ILP" and fl.get("release_taskgraphs")
        if exact and not conditional and fl["scheduler"] in ("ILP", "TetriSched_Gurobi", "TetriSched_CPLEX", "Clockwork"):
            for r in ctx.tasks.values():
                if r["finishes"]:
                    ctx.count("c12_completions_judged")
                    dl = r.get("deadline_at_release", r.get("deadline_seen"))
                    if r["finishes"][-1] > dl:
                        deferred = r["starts"] and r["applied"] is not None and r["starts"][-1] > r["applied"].placement_time.time
                        ctx.violate("C12", "completed_after_deadline",
                                    f"{fl['scheduler']}: {r['uname']} started {r['starts']} finished {r['finishes']} deadline {dl}; "
                                    f"chosen time {r['applied'].placement_time.time if r['applied'] is not None else None}",
                                    policy=fl["scheduler"], start_was_deferred=bool(deferred),
                                    lookahead_positive=fl.get("scheduler_lookahead", 0) > 0)
        return super().summarize(world, ctx, spec, idx)

    def deciding_counters(self, tot):
        return [("enforcing schedule() calls judged", tot.get("c12_enforcing_calls", 0), 400),
                ("hopeless tasks offered", tot.get("c12_hopeless", 0), 50),
                ("exactly tight deadlines offered", tot.get("c12_exactly_tight", 0), 50),
                ("planner placements judged", tot.get("c12_planner_placements", 0), 300),
                ("models probed", tot.get("c12_models", 0), 100),
                ("completions of exact-runtime planner runs judged", tot.get("c12_completions_judged", 0), 300)]


def get_check(pid):
    return DeadlineCheck()
