"""C14: optimisation-based planners do not leave achievable goodput on the table.

Direct schedule() calls of ILP (goal max_goodput), TetriSched-Gurobi and TetriSched-CPLEX
on tiny generated instances, compared with an exhaustive reference search
(vmon/brute.py) over the same decision space."""
import logging
import random

from .. import common, brute
from ..common import seed_int, case_hash


def gen_instance(rng, planner):
    now = rng.choice([0, 5])
    types = ["CPU", "GPU"][:rng.choice([1, 1, 2])]
    nw = rng.choice([1, 1, 2])
    workers = [{"id": w, "cap": {t: rng.randint(1, 2) for t in types}} for w in range(nw)]
    rtg = planner != "cplex" and rng.random() < 0.35
    tasks = []
    ngraphs = rng.randint(2, 4)
    budget = rng.choice([4, 4, 5])
    for g in range(ngraphs):
        if budget <= 0:
            break
        chain = 2 if (rtg and budget >= 2 and rng.random() < 0.7) else 1
        prev = None
        dl = now + rng.randint(2, 10)
        # a graph with SEVERAL reward tasks: independent siblings (all of them sinks) or, with whole graphs released, a fork
        # parent -> two children: the graph counts only if all of them are placed
        shape = "chain"
        if budget >= 2 and rng.random() < 0.3:
            shape = "fork" if (rtg and budget >= 3 and rng.random() < 0.5) else "siblings"
        if shape != "chain":
            members = []
            for k in range(3 if (shape == "fork" or (budget >= 3 and rng.random() < 0.4)) else 2):
                sts = []
                for _ in range(rng.choice([1, 1, 2])):
                    req = {t: rng.randint(1, 2) for t in types if rng.random() < 0.7} or {types[0]: rng.randint(1, 2)}
                    sts.append((req, rng.randint(1, 3)))
                is_child = shape == "fork" and k > 0
                t = {"name": f"t{g}_{k}", "graph": f"G{g}", "release": -1 if is_child else rng.choice([now, now, max(0, now - 2)]),
                     "deadline": dl, "strategies": sts, "parents": [members[0]] if is_child else [], "children": [], "state": "offered"}
                if is_child:
                    tasks[members[0]]["children"].append(len(tasks))
                members.append(len(tasks))
                tasks.append(t)
                budget -= 1
            continue
        for k in range(chain):
            sts = []
            for _ in range(rng.choice([1, 1, 2])):
                req = {t: rng.randint(1, 2) for t in types if rng.random() < 0.7} or {types[0]: rng.randint(1, 2)}
                sts.append((req, rng.randint(1, 4)))
            t = {"name": f"t{g}_{k}", "graph": f"G{g}", "release": rng.choice([now, now, max(0, now - 2)]) if k == 0 else -1,
                 "deadline": dl, "strategies": sts, "parents": [prev] if prev is not None else [], "children": [],
                 "state": "offered"}
            if prev is not None:
                tasks[prev]["children"].append(len(tasks))
            prev = len(tasks)
            tasks.append(t)
            budget -= 1
    # optionally a running task that occupies part of the cluster (it has just been started)
    if rng.random() < 0.5:
        w = rng.randrange(nw)
        req = {t: 1 for t in types if rng.random() < 0.8} or {types[0]: 1}
        r = rng.randint(2, 6)
        rem = r if rng.random() < 0.6 else rng.randint(1, r)  # just started, or part of the way through
        tasks.append({"name": "run0", "graph": "GR", "release": now, "deadline": now + 50, "strategies": [(req, r)],
                      "parents": [], "children": [], "state": "running", "worker": w, "sidx": 0, "remaining": rem})
    return {"now": now, "enforce": True, "rtg": rtg, "workers": workers, "tasks": tasks, "types": types,
            "d": rng.choice([1, 1, 2, 3]), "plan_ahead": rng.choice([6, 9, 12])}


class GoodputCheck:
    pid = "C14"

    def shard_timeout(self, tier):
        return 1200 if tier == "quick" else 7200

    def shards(self, tier, seed):
        n = 1200 if tier == "quick" else 12000
        k = 16 if tier == "quick" else 48
        return [{"seed": seed, "shard": i, "count": n // k} for i in range(k)]

    def replay_spec(self, case):
        return {"seed": case["seed"], "shard": case["shard"], "count": case["count"]}

    def build(self, inst):
        import workload as wl
        import workers as wk
        from utils import EventTime
        US = EventTime.Unit.US
        lg = self.lg
        now = inst["now"]
        ws = []
        for w in inst["workers"]:
            res = wl.Resources(resource_vector={wl.Resource(name=t, _id=None): q for t, q in w["cap"].items()}, _logger=lg)
            ws.append(wk.Worker(name=f"W{w['id']}", resources=res, _logger=lg))
        pool = wk.WorkerPool(name="P0", workers=ws, _logger=lg)
        pools = wk.WorkerPools([pool])
        tasks, strat = [], []
        graphs = {}
        for t in inst["tasks"]:
            sts = [wl.ExecutionStrategy(resources=wl.Resources(resource_vector={wl.Resource(name=n, _id="any"): q for n, q in req.items()}, _logger=lg),
                                        batch_size=1, runtime=EventTime(r, US)) for req, r in t["strategies"]]
            prof = wl.WorkProfile(name="p_" + t["name"], execution_strategies=wl.ExecutionStrategies(sts))
            job = wl.Job(name=t["name"], profile=prof)
            task = wl.Task(name=t["name"], task_graph=t["graph"] + "@0", job=job, deadline=EventTime(t["deadline"], US), timestamp=0,
                           release_time=EventTime(t["release"], US), _logger=lg)
            tasks.append(task)
            strat.append(sts)
            graphs.setdefault(t["graph"] + "@0", []).append(len(tasks) - 1)
        tgs = {}
        for gname, idxs in graphs.items():
            tgs[gname] = wl.TaskGraph(name=gname, tasks={tasks[i]: [tasks[c] for c in inst["tasks"][i]["children"]] for i in idxs})
        for i, t in enumerate(inst["tasks"]):
            if t["state"] in ("offered",) and t["release"] >= 0:
                tasks[i].release(EventTime(t["release"], US))
            if t["state"] == "running":
                tasks[i].release(EventTime(now, US))
                pl = wl.Placement.create_task_placement(task=tasks[i], placement_time=EventTime(now, US), worker_pool_id=pool.id,
                                                        worker_id=ws[t["worker"]].id, execution_strategy=strat[i][t["sidx"]])
                tasks[i].schedule(EventTime(now, US), pl)
                assert pool.place_task(tasks[i], execution_strategy=strat[i][t["sidx"]], worker_id=ws[t["worker"]].id)
                tasks[i].start(EventTime(now, US))
                if t["remaining"] != t["strategies"][t["sidx"]][1]:
                    tasks[i].update_remaining_time(EventTime(t["remaining"], US))
        workload = wl.Workload.from_task_graphs(tgs)
        return workload, pools, pool, ws, tasks, strat

    def run_shard(self, spec, workdir):
        import workload as wl
        import schedulers as S
        from utils import EventTime
        US = EventTime.Unit.US
        self.lg = logging.getLogger("c14")
        self.lg.addHandler(logging.NullHandler())
        self.lg.propagate = False
        self.lg.setLevel(logging.CRITICAL)
        viol, counters, samples, nontrivial = [], {}, [], set()

        def bump(k, n=1):
            counters[k] = counters.get(k, 0) + n
        PT = wl.Placement.PlacementType
        for idx in range(spec["count"]):
            rng = random.Random(seed_int("c14", spec["seed"], spec["shard"], idx))
            planner = ["ilp", "gurobi", "cplex"][idx % 3]
            inst = gen_instance(rng, planner)
            workload, pools, pool, ws, tasks, strat = self.build(inst)
            now = inst["now"]
            z = EventTime.zero()
            if planner == "ilp":
                pol = S.ILPScheduler(runtime=z, enforce_deadlines=True, goal="max_goodput", release_taskgraphs=inst["rtg"],
                                     lookahead=EventTime(0, US), policy=wl.BranchPredictionPolicy.ALL)
            elif planner == "gurobi":
                pol = S.TetriSchedGurobiScheduler(runtime=z, enforce_deadlines=True, retract_schedules=False, release_taskgraphs=inst["rtg"],
                                                  goal="max_goodput", time_discretization=EventTime(inst["d"], US),
                                                  plan_ahead=EventTime(inst["plan_ahead"], US), time_limit=EventTime(-1, US))
            else:
                pol = S.TetriSchedCPLEXScheduler(runtime=z, enforce_deadlines=True, retract_schedules=False, goal="max_goodput",
                                                 time_discretization=EventTime(inst["d"], US), plan_ahead=EventTime(inst["plan_ahead"], US),
                                                 time_limit=EventTime(-1, EventTime.Unit.S))
            pol._logger.handlers.clear()
            pol._logger.addHandler(logging.NullHandler())
            case = {"seed": spec["seed"], "shard": spec["shard"], "count": spec["count"], "index": idx}

            def bad(kind, detail):
                viol.append({"kind": kind, "detail": f"{detail}; instance={inst_view(inst)}", "case": case,
                             "case_id": f"{spec['shard']}/{idx}", "facts": {"planner": planner, "rtg": inst["rtg"]}})
            try:
                with common.wall_guard(180):
                    pls = list(pol.schedule(EventTime(now, US), workload, pools))
            except common.SolverAborted:
                bump("tooling_limit")  # a solve that does not return: wall-clock is never a verdict
                bump("solver_calls_cut_short")
                continue
            except Exception as e:
                if (type(e).__name__ == "GurobiError" and "size-limited" in str(e)) or type(e).__name__ == "DOcplexLimitsExceeded":
                    bump("tooling_limit")
                    continue
                bad(f"schedule_raises:{type(e).__name__}", str(e)[:200])
                continue
            bump("instances")
            bump("instances_" + planner)
            widx = {w.id: i for i, w in enumerate(ws)}
            tidx = {id(t): i for i, t in enumerate(tasks)}
            plan = {i: (t["worker"], t["sidx"], now) for i, t in enumerate(inst["tasks"]) if t["state"] == "running"}
            for p in pls:
                if p.placement_type == PT.PLACE_TASK and p.is_placed():
                    i = tidx[id(p.task)]
                    s = next(k for k, st in enumerate(strat[i]) if st is p.execution_strategy)
                    plan[i] = (widx[p.worker_id], s, p.placement_time.time)
            if planner == "ilp":
                got = brute.ilp_goodput_of(inst, set(plan))
                best, wit = brute.ilp_optimum(inst, horizon=12)
                ng = len({t["graph"] for t in inst["tasks"]})
                if 0 < best < ng or got != best:
                    nontrivial.add(case_hash(inst_view(inst)))
                if got < best:
                    bad("ilp_goodput_below_optimum", f"ILP placed {sorted(plan.items())} -> goodput {got}; a plan with goodput {best} exists: {sorted(wit.items())}")
                elif got > best:
                    bad("oracle_below_planner", f"harness: ILP achieved goodput {got} > reference optimum {best} with plan {sorted(plan.items())}")
                bump("ilp_compared")
            else:
                grid = list(range(now, now + inst["plan_ahead"] + 1, inst["d"]))
                n_in = sum(1 for t in inst["tasks"] if t["state"] in ("offered", "running"))
                if planner == "gurobi" and 2 * n_in >= 10:
                    bump("skipped_gap_could_hide_a_task")
                    continue
                wit = brute.tetrisched_addable(inst, plan, grid, dag_aware=(planner == "gurobi"))
                unplaced = [i for i, t in enumerate(inst["tasks"]) if t["state"] == "offered" and i not in plan]
                if unplaced:
                    nontrivial.add(case_hash(inst_view(inst)))
                    bump("instances_with_unplaced_" + planner)
                if wit is not None:
                    i, w, s, st = wit
                    bad("tetrisched_plan_not_maximal", f"{planner}: plan {sorted(plan.items())} leaves {inst['tasks'][i]['name']} unplaced although it can be added on "
                                                       f"worker {w} strategy {s} at slot {st} (grid step {inst['d']}, horizon {inst['plan_ahead']})")
                bump("tetrisched_compared")
            if len(samples) < 2:
                samples.append({"planner": planner, "instance": inst_view(inst), "returned_plan": sorted(plan.items())})
        return {"viol": viol[:40], "counters": counters, "samples": samples, "nontrivial": sorted(nontrivial)}

    def conclude(self, results, tier, seed):
        viol = [v for r in results for v in r["viol"]]
        tot, nt = {}, set()
        for r in results:
            nt.update(r["nontrivial"])
            for k, v in r["counters"].items():
                tot[k] = tot.get(k, 0) + v
        inconclusive = []
        if len(nt) < (100 if tier == "quick" else 1500):
            inconclusive.append(f"only {len(nt)} instances where the optimum is neither all nor none / a task was left unplaced")
        for p in ("ilp", "gurobi", "cplex"):
            if tot.get("instances_" + p, 0) < 60:
                inconclusive.append(f"{p}: {tot.get('instances_' + p, 0)} instances")
        cov = {"evaluations": tot.get("instances", 0), "distinct_nontrivial": len(nt),
               "rule": "tiny planning instances (<=4 offered tasks in 2-4 graphs, <=2 workers, <=2 strategies, deadlines within 10us, "
                       "optionally a running task, task-by-task mode and whole-graph chains with release_taskgraphs, grid step 1-3) solved by the "
                       "real planners and by exhaustive search over the planners' documented decision space; non-trivial = distinct instance whose "
                       "optimum goodput is neither all nor none of the graphs (ILP) or in which the planner left a task unplaced (TetriSched)",
               "samples": [s for r in results for s in r["samples"]][:4], "counters": tot}
        return {"violations": viol, "coverage": cov, "inconclusive": inconclusive,
                "assumptions": ["ILP convention: integer start >= max(now+1, release), busy on the closed interval [s, s+r], capacity summed over all tasks "
                                "overlapping a task on its worker, child >= parent start + chosen runtime + 1",
                                "TetriSched convention: starts on the slot grid, occupancy at slot instants start <= t < start+runtime, "
                                "child >= parent start + slowest runtime + 1; with release_taskgraphs only sink tasks carry reward",
                                "running tasks have just been started (remaining == nominal runtime)"]}


def inst_view(inst):
    return {"now": inst["now"], "rtg": inst["rtg"], "workers": [w["cap"] for w in inst["workers"]], "d": inst["d"], "plan_ahead": inst["plan_ahead"],
            "tasks": [{k: t[k] for k in ("name", "graph", "release", "deadline", "strategies", "parents", "state") if k in t} | ({"worker": t["worker"]} if "worker" in t else {})
                      for t in inst["tasks"]]}


def get_check(pid):
    return GoodputCheck()
