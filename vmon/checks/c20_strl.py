"""C20: STRL compilation.  The real C++ library (built with ASan + UBSan by vmon.strl.build
from /repo's working tree) compiles generated expression DAGs; the model it emits is solved
under the real and hostile objectives; every solution is written back and populateResults()
is judged by the oracle in vmon.strl.oracle; the optimum is compared with a brute-force
search of the expression's own semantics."""
import os
import random
import shutil

from ..common import seed_int, case_hash

CLASSES = ["plain", "coarse", "misaligned", "dynamic", "passes", "dynpass"]
WEIGHTS = {"plain": 5, "coarse": 3, "misaligned": 2, "dynamic": 2, "passes": 6, "dynpass": 1}


class StrlCheck:
    pid = "C20"

    def shard_timeout(self, tier):
        return 1500 if tier == "quick" else 10800

    def _driver(self):
        from ..strl import build
        drv, info = build.build()
        return drv, info

    def shards(self, tier, seed):
        drv, info = self._driver()
        nshards = 16
        per = 45 if tier == "quick" else 500
        return [{"seed": seed, "shard": i, "count": per, "driver": drv, "build": info, "tier": tier} for i in range(nshards)]

    def replay_spec(self, case):
        drv, info = self._driver()
        return {"seed": case["seed"], "shard": case["shard"], "count": 1, "only": case["index"], "cls": case["cls"], "driver": drv,
                "build": info, "tier": "replay"}

    def run_shard(self, spec, workdir):
        from ..strl import gen, run, oracle
        drv = spec["driver"]
        viol, counters, samples, nontrivial = [], {}, [], set()

        def bump(k, n=1):
            counters[k] = counters.get(k, 0) + n
        order = [c for c in CLASSES for _ in range(WEIGHTS[c])]
        idxs = [spec["only"]] if "only" in spec else range(spec["count"])
        for index in idxs:
            cls = spec.get("cls") or order[(index + spec["shard"]) % len(order)]
            parts = (spec["seed"], spec["shard"], index, cls)
            s = gen.gen_spec(parts, cls)
            rng = random.Random(seed_int("c20-solve", *parts))
            try:
                r = run.run_spec(drv, s, workdir, f"s{spec['shard']}_{index}", rng,
                                 max_solutions=60 if spec["tier"] != "thorough" else 90)
            except Exception as e:  # harness failure, not a verdict
                import traceback
                raise RuntimeError(f"harness error on {parts}: {traceback.format_exc()}") from e
            bump("trees")
            bump(f"class_{cls}")
            bump(f"status_{r['status']}")
            for k, v in r["counters"].items():
                bump(k, v)
            tree = oracle.Tree(s)
            f = oracle.facts(tree)
            f.update({"cls": cls, "critical_path_pass": "CRITICAL_PATH_PASS" in s["passes"],
                      "dynamic_pass": "DYNAMIC_DISCRETIZATION_PASS" in s["passes"],
                      "purge_pass": "CAPACITY_CONSTRAINT_PURGE_PASS" in s["passes"]})
            types = sorted({n["type"] for n in s["nodes"]})
            for t in types:
                bump(f"trees_with_{t}")
            if f["has_shared"]:
                bump("trees_with_shared_subexpression")
            if r["status"] == "compile_exception":
                msg = r["facts"].get("exception", "")
                key = "max_without_live_child" if "must have at least one child with utility" in msg else \
                      "start_outside_ranges" if "out of range of the discretization" in msg else \
                      "discretization_pass_rejects" if "Discretization Optimization pass" in msg else "other"
                bump(f"rejected_{key}")
                if key == "other" and len(samples) < 3:
                    samples.append({"rejected": msg[:200], "tree": parts})
            if r["nsol"] > 0 and r.get("ref", 0) and r.get("ref", 0) > 0 and len(s["nodes"]) >= 4:
                nontrivial.add(case_hash(gen.to_text(s)))
            # a capacity overflow between leaves that a LessThan should have ordered: with the purge pass the capacity row
            # is dropped on the strength of that LessThan, so an order violation (known finding below) also shows as an overflow
            f["order_violation_in_same_tree"] = any(k == "lessthan_order_violated" for k, _ in r["violations"])
            seen = set()
            for kind, detail in r["violations"]:
                if kind in seen:
                    continue
                seen.add(kind)
                if len(viol) < 40:
                    viol.append({"kind": kind, "detail": f"[{cls} passes={s['passes']} disc={s['disc']}] {detail}", "facts": f,
                                 "case": {"seed": spec["seed"], "shard": spec["shard"], "index": index, "cls": cls,
                                          "spec_text": gen.to_text(s)},
                                 "case_id": case_hash(parts)})
            if len(samples) < 2 and r["nsol"] > 3 and r.get("ref"):
                samples.append({"tree": list(parts), "nodes": len(s["nodes"]), "types": types, "solutions_checked": r["nsol"],
                                "model_optimum": r.get("opt"), "brute_force_optimum": r.get("ref"), "passes": s["passes"], "disc": s["disc"]})
        shutil.rmtree(workdir, ignore_errors=True)
        return {"viol": viol, "counters": counters, "samples": samples, "nontrivial": sorted(nontrivial), "build": spec.get("build")}

    def conclude(self, results, tier, seed):
        viol = [v for r in results for v in r["viol"]]
        tot = {}
        for r in results:
            for k, v in r["counters"].items():
                tot[k] = tot.get(k, 0) + v
        nt = set()
        for r in results:
            nt.update(r["nontrivial"])
        inconclusive = []
        if tier != "replay":
            need = {"solutions_checked": 5000, "placements_checked": 5000, "brute_force_done": 300, "optimum_equal_reference": 200,
                    "status_ok": 300, "inactive_constraints": 50, "coarse_lost_utility": 3, "slot_reference_done": 30,
                    "trees_with_shared_subexpression": 30}
            for t in ("choose", "wchoose", "mchoose", "alloc", "min", "max", "lessthan", "scale"):
                need[f"trees_with_{t}"] = 20
            for k, n in need.items():
                if tot.get(k, 0) < n:
                    inconclusive.append(f"{k}={tot.get(k, 0)} < {n}")
            if tot.get("driver_starved", 0) > max(3, tot.get("trees", 1) * 0.03):
                inconclusive.append(f"{tot.get('driver_starved')} driver steps were killed by the wall-clock limit with little CPU used (loaded machine)")
            if tot.get("status_tool_limit", 0) > tot.get("trees", 1) * 0.05:
                inconclusive.append(f"{tot.get('status_tool_limit')} models exceeded the solver licence's size limit")
        cov = {"evaluations": tot.get("solutions_checked", 0), "distinct_nontrivial": len(nt),
               "rule": "seeded random STRL DAGs (1-3 partitions, <= ~8 placement options, Objective/Min/Max/LessThan/Scale/Choose/"
                       "WindowedChoose/MalleableChoose/Allocation, task-graph-shaped sharing, leaves in the past, unsatisfiable amounts) in six "
                       "classes: unit discretisation, coarse grid-aligned, coarse off-grid, explicit dynamic ranges, critical-path/capacity-purge "
                       "passes, dynamic-discretisation pass; per tree up to 60 distinct model solutions from the real objective's solution pool "
                       "and from hostile objectives (max packed resources, min utility, 3 random); evaluation = one solution read back and "
                       "judged; non-trivial = distinct tree with >= 4 nodes, a positive brute-force optimum and a judged solution",
               "samples": [s for r in results for s in r["samples"]][:6],
               "exhaustive": False,
               "build": (results[0].get("build") if results else None),
               "sanitizers": "g++ -O1 -fsanitize=address,undefined -fno-sanitize-recover=all; a report or a non-zero exit of the driver is a violation",
               "counters": tot}
        return {"violations": viol, "coverage": cov, "inconclusive": inconclusive,
                "assumptions": ["the MILP is solved by gurobipy after translating the dumped model with GurobiSolver::translateModel's rules "
                                "(absent lower bound 0, absent upper bound +inf, indicator = binary, inactive constraints skipped)",
                                "TBB is replaced by a sequential shim: data races of the parallel parse are out of reach",
                                "constants of the objective are ignored on both sides of every utility comparison",
                                "WindowedChoose windows are generated on their own granularity's grid (off-grid windows have no documented meaning)"]}


def get_check(pid):
    return StrlCheck()
