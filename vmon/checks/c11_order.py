"""C11: DAG-aware planners (ILP, TetriSched-Gurobi, Z3) order children after parents.

(1) output check on every live and shadow call of those planners inside end-to-end runs
    with lookahead / release_taskgraphs; (2) adversarial probes on the captured solver
    model of each such call; (3) direct Z3 calls on generated graphs over empty clusters
    (Z3 cannot be driven end to end, see known findings)."""
import logging
import random

from .e2e_checks import E2ECheck, RULES
from .. import probes, worldgen
from ..common import seed_int, case_hash

PLANNERS = ("ILPScheduler", "TetriSchedGurobiScheduler", "Z3Scheduler")
RULES["C11"] = ("a world in which a planner decided a task together with at least one of its predecessors "
                "(a parent/child pair in one invocation)",
                lambda s: s["counters"].get("c11_pairs_in_output", 0) + s["counters"].get("probe_pairs", 0) > 0, 40)


def check_output(now, placements, states, parents_of, applied_of, start_of, report, bump, reachable_states_only=True):
    import workload as wl
    PT = wl.Placement.PlacementType
    dec = {id(p.task): p for p in placements if p.placement_type == PT.PLACE_TASK}
    for p in dec.values():
        if not p.is_placed():
            continue
        child = p.task
        for parent in parents_of(child):
            pd = dec.get(id(parent))
            ct = p.placement_time.time
            if pd is not None:
                bump("c11_pairs_in_output")
                if not pd.is_placed():
                    if not child.terminal:
                        report("child_placed_parent_unplaced", f"t={now}: {child.unique_name} placed at {ct} while co-decided parent {parent.unique_name} was left unplaced")
                    continue
                rt = pd.execution_strategy.runtime.time if pd.execution_strategy is not None else parent.remaining_time.time
                if ct < pd.placement_time.time + rt:
                    report("child_before_parent_finish", f"t={now}: {child.unique_name} at {ct} < {parent.unique_name} at {pd.placement_time.time} + runtime {rt}")
                continue
            st = states.get(id(parent))
            if st == "COMPLETED":
                continue
            if st == "RUNNING":
                bump("c11_running_parent_pairs")
                ef = probes.expected_finish_weakest(parent, now, start_of(parent))
                if ct < ef:
                    report("child_before_running_parent_finish", f"t={now}: {child.unique_name} at {ct} < expected finish {ef} of running {parent.unique_name}")
            elif st == "SCHEDULED":
                bump("c11_scheduled_parent_pairs")
                pl = applied_of(parent)
                if pl is not None and pl.execution_strategy is not None:
                    ef = pl.placement_time.time + pl.execution_strategy.runtime.time
                    if ct < ef:
                        report("child_before_scheduled_parent_finish", f"t={now}: {child.unique_name} at {ct} < expected finish {ef} of scheduled {parent.unique_name}")
            elif not child.terminal and reachable_states_only and states.get(id(child)) != "SCHEDULED":
                # (the property speaks of predecessors decided in the same invocation, running or scheduled; a placed child
                # with a predecessor that is none of these cannot arise from the frontier of a real run, so it is flagged
                # there -- but not on chaos-made states, where a child may have been scheduled earlier without its parent,
                # nor for a child whose earlier schedule the planner merely re-emits)
                report("child_placed_parent_undecided", f"t={now}: {child.unique_name} placed at {ct} while parent {parent.unique_name} is {st} and received no decision")


def c11_hook(ctx, call, pol, sim_time, workload, pools):
    if call["policy"] not in PLANNERS:
        return
    model = probes.take(pol)
    now = call["t"]

    def parents_of(task):
        tg = workload.get_task_graph(task.task_graph)
        return list(tg.get_parents(task)) if tg is not None else []

    def start_of(task):
        r = ctx.tasks.get(id(task))
        return r["starts"][-1] if r and r["starts"] else None

    def applied_of(task):
        r = ctx.tasks.get(id(task))
        return r["applied"] if r else None

    def report(kind, detail):
        ctx.violate("C11", kind, f"{call['policy']}{' (shadow)' if call.get('shadow') else ''}: {detail}",
                    policy=call["policy"])
    ctx.count("c11_calls")
    check_output(now, call["placements"], call["states"], parents_of, applied_of, start_of, report, ctx.count,
                 reachable_states_only=not hasattr(ctx, "policy_decision"))  # direct-drive (chaos) contexts carry policy_decision
    if model is not None and ctx.counters.get("probes", 0) < ctx.opts.get("max_probes_per_world", 120):
        ctx.count("c11_models")
        try:
            probes.probe_precedence(model, now, parents_of, ctx.counters, report, start_of)
        except Exception as e:
            if type(e).__name__ == "GurobiError" and "size-limited" in str(e):
                ctx.count("probe_tooling_limit")
            else:
                raise


class OrderCheck(E2ECheck):
    def __init__(self):
        super().__init__("C11")

    def opts(self):
        return {"shadow_policies": True, "csvreader": False, "decision_hooks": [c11_hook]}

    def extra_install(self):
        probes.install()

    def mix(self, tier):
        dag = ["chain", "fork", "join", "diamond", "random", "random", "cond"]
        return [("planner", {"scheduler": "ILP", "shapes": dag, "loop_timeout": 120,
                             "flags": {"scheduler_lookahead": 20}}, 0.25),
                ("planner", {"scheduler": "ILP", "shapes": dag, "loop_timeout": 120,
                             "flags": {"release_taskgraphs": True}}, 0.2),
                ("planner", {"scheduler": "TetriSched_Gurobi", "shapes": dag, "loop_timeout": 120,
                             "flags": {"release_taskgraphs": True, "scheduler_plan_ahead": 15}}, 0.25),
                ("planner", {"scheduler": "TetriSched_Gurobi", "shapes": dag, "loop_timeout": 120,
                             "flags": {"scheduler_lookahead": 10, "scheduler_plan_ahead": 15}}, 0.15),
                ("planner", {"shapes": dag, "loop_timeout": 100}, 0.15)]

    def shards(self, tier, seed):
        import os
        n = int(os.environ.get("VERIF_N", 160 if tier == "quick" else 3000))
        specs = []
        for profile, over, share in self.mix(tier):
            cnt = max(1, int(n * share))
            per = max(1, cnt // (4 if tier == "quick" else 12))
            start = 0
            while start < cnt:
                specs.append({"seed": seed, "profile": profile, "over": over, "start": start,
                              "count": min(per, cnt - start), "pid": self.pid})
                start += per
        for i in range(6 if tier == "quick" else 24):
            specs.append({"z3direct": True, "seed": seed, "shard": i, "count": 10 if tier == "quick" else 60})
        specs += self.shadow_direct_shards(tier, seed)
        return specs

    def run_shard(self, spec, workdir):
        probes.install()
        if spec.get("z3direct"):
            return self.z3direct(spec)
        return super().run_shard(spec, workdir)

    # ------------------------------------------------------------------
    def z3direct(self, spec):
        import workload as wl
        import workers as wk
        import schedulers as S
        from utils import EventTime
        US = EventTime.Unit.US
        lg = logging.getLogger("c11")
        lg.addHandler(logging.NullHandler())
        lg.propagate = False
        lg.setLevel(logging.CRITICAL)
        viol, counters, hashes = [], {}, set()

        def bump(k, n=1):
            counters[k] = counters.get(k, 0) + n
        for idx in range(spec["count"]):
            rng = random.Random(seed_int("c11z3", spec["seed"], spec["shard"], idx))
            shape, nodes, blocks = worldgen.gen_graph(rng, "G", max_nodes=5, shapes=["chain", "fork", "join", "diamond", "random"])
            types = ["CPU", "GPU"][:rng.randint(1, 2)]
            pools = []
            for p in range(rng.randint(1, 2)):
                res = wl.Resources(resource_vector={wl.Resource(name=t, _id=None): rng.randint(1, 3) for t in types}, _logger=lg)
                pools.append(wk.WorkerPool(name=f"P{p}", workers=[wk.Worker(name=f"W{p}", resources=res, _logger=lg)], _logger=lg))
            wps = wk.WorkerPools(pools)
            jobs, tasks = {}, {}
            par = {n["name"]: [] for n in nodes}
            for n in nodes:
                for c in n.get("children", []):
                    par[c].append(n["name"])
            now = rng.choice([0, 3])
            for n in nodes:
                req = {t: rng.randint(1, 2) for t in types if rng.random() < 0.8} or {types[0]: 1}
                st = wl.ExecutionStrategy(resources=wl.Resources(resource_vector={wl.Resource(name=t, _id="any"): q for t, q in req.items()}, _logger=lg),
                                          batch_size=1, runtime=EventTime(rng.choice([1, 2, 3, 5]), US))
                prof = wl.WorkProfile(name="p" + n["name"], execution_strategies=wl.ExecutionStrategies([st]))
                jobs[n["name"]] = wl.Job(name=n["name"], profile=prof)
                tasks[n["name"]] = wl.Task(name=n["name"], task_graph="G@0", job=jobs[n["name"]],
                                           deadline=EventTime(now + rng.choice([5, 15, 40]), US), timestamp=0,
                                           release_time=EventTime(now if not par[n["name"]] else -1, US), _logger=lg)
                if not par[n["name"]]:
                    tasks[n["name"]].release(EventTime(now, US))
            tg = wl.TaskGraph(name="G@0", tasks={tasks[n["name"]]: [tasks[c] for c in n.get("children", [])] for n in nodes})
            workload = wl.Workload.from_task_graphs({"G@0": tg})
            pol = S.Z3Scheduler(runtime=EventTime.zero(), lookahead=EventTime(100, US), enforce_deadlines=rng.random() < 0.5,
                                release_taskgraphs=True, goal="max_slack", policy=wl.BranchPredictionPolicy.ALL)
            pol._logger.handlers.clear()
            pol._logger.addHandler(logging.NullHandler())
            case = {"z3direct": True, "seed": spec["seed"], "shard": spec["shard"], "count": spec["count"]}

            def report(kind, detail):
                if len(viol) < 30:
                    viol.append({"prop": "C11", "kind": kind, "detail": f"Z3Scheduler direct: {detail}; graph={[(n['name'], n.get('children', [])) for n in nodes]}",
                                 "case": case, "case_id": f"z3/{spec['shard']}/{idx}", "facts": {}})
            try:
                pls = list(pol.schedule(EventTime(now, US), workload, wps))
            except Exception as e:
                report(f"schedule_raises:{type(e).__name__}", str(e)[:200])
                continue
            bump("c11_calls")
            bump("z3_direct_calls")
            states = {id(t): t.state.name for t in tasks.values()}
            parents_of = lambda t: [tasks[p] for p in par[t.name]]  # noqa: E731
            check_output(now, pls, states, parents_of, lambda t: None, lambda t: None, report, bump)
            model = probes.take(pol)
            if model is not None:
                bump("c11_models")
                bump("z3_models")
                probes.probe_precedence(model, now, parents_of, counters, report)
            hashes.add(case_hash([shape, [(n["name"], n.get("children", [])) for n in nodes]]))
        return {"worlds": [], "z3": {"viol": viol, "counters": counters, "n_hashes": len(hashes)}}

    def conclude(self, results, tier, seed):
        out = super().conclude([r for r in results if "z3" not in r], tier, seed)
        tot = {}
        for r in results:
            if "z3" in r:
                out["violations"] += r["z3"]["viol"]
                for k, v in r["z3"]["counters"].items():
                    tot[k] = tot.get(k, 0) + v
                out["coverage"]["distinct_nontrivial"] += r["z3"]["n_hashes"]
                out["coverage"]["evaluations"] += r["z3"]["counters"].get("z3_direct_calls", 0)
        mc = out["coverage"]["monitor_counters"]
        out["coverage"]["z3_direct_counters"] = tot
        need = [("planner calls judged (output check)", mc.get("c11_calls", 0) + tot.get("c11_calls", 0), 1000),
                ("captured models probed", mc.get("c11_models", 0) + tot.get("c11_models", 0), 100),
                ("adversarial probes solved", mc.get("probes", 0) + tot.get("probes", 0), 300),
                ("probe pairs with both tasks placeable", mc.get("probe_both_placed_feasible", 0) + tot.get("probe_both_placed_feasible", 0), 80),
                ("parent/child pairs in returned decisions", mc.get("c11_pairs_in_output", 0) + tot.get("c11_pairs_in_output", 0), 100),
                ("z3 models probed", tot.get("z3_models", 0), 30)]
        scale = 1 if tier == "quick" else 5
        for name, val, minimum in need:
            out["coverage"]["deciding"].append({"monitor": name, "evaluations": val, "minimum": minimum * scale})
            if val < minimum * scale:
                out["inconclusive"].append(f"deciding monitor '{name}' evaluated {val} times (< {minimum * scale})")
        out["coverage"]["tooling_limit_probes"] = mc.get("probe_tooling_limit", 0)
        out["coverage"]["rule"] += "; plus direct Z3Scheduler calls on generated DAGs over empty clusters; each captured solver model is probed per (parent, child) pair"
        return out


def get_check(pid):
    return OrderCheck()
