"""C17: graph algorithms vs brute force on enumerated and random DAGs (and cyclic graphs),
through Graph, TaskGraph and JobGraph."""
import itertools
import logging
import random

from ..common import seed_int, case_hash


# --------------------------------------------------------------------------
# reference (brute force) on adjacency {i: [children]}
# --------------------------------------------------------------------------
def ref_reach(adj, n):
    seen, st = set(), [n]
    while st:
        x = st.pop()
        for c in adj[x]:
            if c not in seen:
                seen.add(c)
                st.append(c)
    return seen


def ref_parents(adj):
    par = {n: [] for n in adj}
    for n, cs in adj.items():
        for c in cs:
            par[c].append(n)
    return par


def ref_longest(adj, w):
    """max weight of a source->sink path, by memoised DFS (DAG only)."""
    par = ref_parents(adj)
    memo = {}

    def best_to(n):  # heaviest path ending in n that starts in a source
        if n in memo:
            return memo[n]
        memo[n] = w[n] + max([best_to(p) for p in par[n]], default=0)
        return memo[n]
    return max(best_to(n) for n in adj if not adj[n]) if adj else 0


def ref_depth(adj):
    par = ref_parents(adj)
    memo = {}

    def d(n):
        if n not in memo:
            memo[n] = 1 + max([d(p) for p in par[n]], default=0)
        return memo[n]
    return {n: d(n) for n in adj}


def has_cycle(adj):
    color = {}

    def visit(n):
        color[n] = 1
        for c in adj[n]:
            if color.get(c) == 1 or (c not in color and visit(c)):
                return True
        color[n] = 2
        return False
    return any(n not in color and visit(n) for n in adj)


# --------------------------------------------------------------------------
def enum_dags(n):
    pairs = [(i, j) for i in range(n) for j in range(i + 1, n)]
    for mask in range(1 << len(pairs)):
        adj = {i: [] for i in range(n)}
        for b, (i, j) in enumerate(pairs):
            if mask >> b & 1:
                adj[i].append(j)
        yield adj


def random_dag(rng, n):
    order = list(range(n))
    rng.shuffle(order)
    adj = {i: [] for i in range(n)}
    p = rng.choice([0.08, 0.15, 0.3, 0.5])
    for a in range(n):
        for b in range(a + 1, n):
            if rng.random() < p:
                adj[order[a]].append(order[b])
    return adj


def grow_plan(adj, rng):
    """a sequence of public mutator calls that ends in `adj` (or in `adj` plus a closing edge / minus a source), with
    query points in between: ("node", k, children) ("child", a, b) ("remove", k) ("query",)"""
    keys = list(adj)
    rng.shuffle(keys)
    plan, later = [], []
    for k in keys:
        cs = list(adj[k])
        rng.shuffle(cs)
        cut = rng.randint(0, len(cs))
        plan.append(("node", k, cs[:cut]))
        later += [(k, c) for c in cs[cut:]]
        if rng.random() < 0.35:
            plan.append(("query",))
    rng.shuffle(later)
    for a, b in later:
        plan.append(("child", a, b))
        if rng.random() < 0.5:
            plan.append(("query",))
    plan.append(("query",))
    r = rng.random()
    if r < 0.2:
        a = rng.choice(keys)
        reach = sorted(ref_reach(adj, a))
        if reach:
            plan.append(("child", rng.choice(reach), a))  # closes a cycle after everything was queried
    elif r < 0.4:
        par = ref_parents(adj)
        srcs = [k for k in keys if not par[k]]
        if srcs and len(keys) > 1:
            plan.append(("remove", rng.choice(srcs)))
    return plan


def build_mapping(adj, rng):
    """node -> children mapping in a random insertion order (dict order is behaviour)."""
    keys = list(adj)
    rng.shuffle(keys)
    return [(k, rng.sample(adj[k], len(adj[k]))) for k in keys]


class GraphCheck:
    pid = "C17"

    def shard_timeout(self, tier):
        return 900 if tier == "quick" else 7200

    def shards(self, tier, seed):
        specs = []
        if tier == "quick":
            for n in range(1, 6):
                specs.append({"seed": seed, "kind": "enum", "n": n, "orders": 3, "part": 0, "parts": 1})
            for part in range(4):
                specs.append({"seed": seed, "kind": "enum", "n": 6, "orders": 1, "part": part, "parts": 32})
            for i in range(8):
                specs.append({"seed": seed, "kind": "random", "shard": i, "count": 260, "cyclic": 30})
            for i in range(4):
                specs.append({"seed": seed, "kind": "incremental", "shard": i, "count": 300})
        else:
            for n in range(1, 6):
                specs.append({"seed": seed, "kind": "enum", "n": n, "orders": 6, "part": 0, "parts": 1})
            for part in range(32):
                specs.append({"seed": seed, "kind": "enum", "n": 6, "orders": 6, "part": part, "parts": 32})
            for i in range(32):
                specs.append({"seed": seed, "kind": "random", "shard": i, "count": 1600, "cyclic": 100})
            for i in range(16):
                specs.append({"seed": seed, "kind": "incremental", "shard": i, "count": 2500})
        return specs

    def replay_spec(self, case):
        return case["spec"]

    # ------------------------------------------------------------------
    def run_shard(self, spec, workdir):
        import workload as wl
        from workload.graph import Graph
        from utils import EventTime
        lg = logging.getLogger("c17")
        lg.addHandler(logging.NullHandler())
        lg.propagate = False
        viol, counters, samples = [], {}, []
        nontrivial = set()

        def bump(k, n=1):
            counters[k] = counters.get(k, 0) + n

        def bad(kind, detail, adj):
            if len(viol) < 25:
                viol.append({"kind": kind, "detail": f"{detail}; graph={adj}", "case": {"spec": spec},
                             "case_id": case_hash(adj)})

        rng = random.Random(seed_int("c17", spec["seed"], spec.get("shard", 0), spec["kind"], spec.get("n"), spec.get("part")))

        def cases():
            if spec["kind"] == "enum":
                for idx, adj in enumerate(enum_dags(spec["n"])):
                    if idx % spec["parts"] != spec["part"]:
                        continue
                    for _ in range(spec["orders"]):
                        yield adj, False, False
            elif spec["kind"] == "incremental":
                for _ in range(spec["count"]):
                    yield random_dag(rng, rng.randint(2, 9)), False, True
            else:
                for _ in range(spec["count"]):
                    yield random_dag(rng, rng.randint(6, 40)), False, False
                for _ in range(spec["cyclic"]):
                    adj = random_dag(rng, rng.randint(2, 12))
                    # close a cycle along an existing path or a self loop
                    nodes = list(adj)
                    a = rng.choice(nodes)
                    reach = ref_reach(adj, a)
                    if reach and rng.random() < 0.8:
                        adj[rng.choice(sorted(reach))].append(a)
                    else:
                        adj[a].append(a)
                    yield adj, True, False

        for adj, cyclic, incremental in cases():
            bump("graphs")
            n = len(adj)
            w = {i: rng.choice([1, 1, 2, 3, 5, 7, 7]) for i in adj}
            mapping = build_mapping(adj, rng)
            flavour = rng.choice(["graph", "task", "job"])
            bump("flavour_" + flavour)
            nodes = {}
            if flavour == "graph":
                for i in adj:
                    nodes[i] = f"v{i}"
                g = Graph({nodes[k]: [nodes[c] for c in cs] for k, cs in mapping})
                weight = lambda x: w[int(x[1:])]  # noqa: E731
            else:
                jobs = {}
                for i in adj:
                    prof = wl.WorkProfile(name=f"p{i}", execution_strategies=wl.ExecutionStrategies([
                        wl.ExecutionStrategy(resources=wl.Resources(_logger=lg), batch_size=1,
                                             runtime=EventTime(w[i], EventTime.Unit.US)),
                        wl.ExecutionStrategy(resources=wl.Resources(_logger=lg), batch_size=1,
                                             runtime=EventTime(max(1, w[i] - 1), EventTime.Unit.US))]))
                    jobs[i] = wl.Job(name=f"j{i}", profile=prof)
                if flavour == "job":
                    nodes = jobs
                    g = wl.JobGraph(name="JG", jobs={nodes[k]: [nodes[c] for c in cs] for k, cs in mapping})
                    weight = lambda x: x.execution_strategies.get_slowest_strategy().runtime.time  # noqa: E731
                else:
                    for i in adj:
                        nodes[i] = wl.Task(name=f"t{i}", task_graph="TG", job=jobs[i],
                                           deadline=EventTime(1000, EventTime.Unit.US), timestamp=0, _logger=lg)
                    g = wl.TaskGraph(name="TG", tasks={nodes[k]: [nodes[c] for c in cs] for k, cs in mapping})
                    weight = lambda x: x.slowest_execution_strategy.runtime.time  # noqa: E731
            inv = {id(v) if flavour != "graph" else v: k for k, v in nodes.items()}

            def make_empty():
                if flavour == "graph":
                    return Graph()
                return wl.JobGraph(name="JG") if flavour == "job" else wl.TaskGraph(name="TG")

            def add_with_children(g, k, cs):
                kids = [nodes[c] for c in cs]
                if flavour == "graph":
                    g.add_node(nodes[k], *kids)
                elif flavour == "job":
                    g.add_job(nodes[k], kids)
                else:
                    g.add_task(nodes[k], kids)

            def idx(x):
                return inv[x if flavour == "graph" else id(x)]

            def judge(g, adj, cyclic):
                n = len(adj)
                if cyclic or has_cycle(adj):
                    bump("cyclic")
                    try:
                        g.topological_sort()
                        bad("cycle_not_reported", "topological_sort returned on a cyclic graph", adj)
                    except RuntimeError:
                        bump("cycle_reported")
                    except RecursionError:
                        bad("cycle_recursion", "RecursionError instead of RuntimeError", adj)
                    return

                par = ref_parents(adj)
                edges = sum(len(c) for c in adj.values())
                if edges >= 2 and any(len(p) >= 2 for p in par.values()):
                    nontrivial.add(case_hash(sorted((k, sorted(v)) for k, v in adj.items())))
                # topological sort
                try:
                    ts = [idx(x) for x in g.topological_sort()]
                    pos = {x: i for i, x in enumerate(ts)}
                    if sorted(ts) != sorted(adj):
                        bad("topological_sort_nodes", f"order {ts}", adj)
                    elif any(pos[p] > pos[c] for p in adj for c in adj[p]):
                        bad("topological_sort_order", f"order {ts}", adj)
                    bump("topological_sort")
                except Exception as e:
                    bad("topological_sort_raises", f"{type(e).__name__}: {e}", adj)
                # longest path with explicit weights
                try:
                    lp = [idx(x) for x in g.get_longest_path(weights=weight)]
                    best = ref_longest(adj, w)
                    ok_path = (len(lp) > 0 and not par[lp[0]] and not adj[lp[-1]]
                               and all(lp[i + 1] in adj[lp[i]] for i in range(len(lp) - 1)))
                    if not ok_path:
                        bad("longest_path_not_a_source_sink_path", f"path {lp}", adj)
                    elif sum(w[x] for x in lp) != best:
                        bad("longest_path_not_maximal", f"path {lp} weight {sum(w[x] for x in lp)} max {best} weights {w}", adj)
                    bump("longest_path")
                    if flavour == "task":
                        cp = g.critical_path_runtime.time
                        if cp != best:
                            bad("critical_path_runtime", f"TaskGraph.critical_path_runtime {cp} != {best} weights {w}", adj)
                        bump("critical_path")
                    if flavour == "job":
                        cp, ct = g.critical_path_runtime.time, g.completion_time.time
                        if cp != best or ct != best:
                            bad("critical_path_runtime", f"JobGraph critical_path_runtime {cp} completion_time {ct} != {best} weights {w}", adj)
                        bump("critical_path")
                    # default weights: source 1, every further node 2 -> longest path by node count
                    lpd = [idx(x) for x in g.get_longest_path()]
                    bestn = ref_longest(adj, {i: 1 for i in adj})
                    okd = (len(lpd) > 0 and not par[lpd[0]] and not adj[lpd[-1]]
                           and all(lpd[i + 1] in adj[lpd[i]] for i in range(len(lpd) - 1)))
                    if not okd or len(lpd) != bestn:
                        bad("longest_path_default_weights", f"path {lpd} but the longest source-sink path has {bestn} nodes", adj)
                except Exception as e:
                    bad("longest_path_raises", f"{type(e).__name__}: {e}", adj)
                # depth, sources
                try:
                    rd = ref_depth(adj)
                    probe = list(adj) if n <= 8 else rng.sample(list(adj), 6)
                    for i in probe:
                        d = g.get_node_depth(nodes[i])
                        if d != rd[i]:
                            bad("node_depth", f"depth({i}) = {d}, expected {rd[i]}", adj)
                        if g.is_source(nodes[i]) != (not par[i]):
                            bad("is_source", f"is_source({i})", adj)
                        if flavour == "task":
                            if g.is_source_task(nodes[i]) != (not par[i]) or g.is_sink_task(nodes[i]) != (not adj[i]):
                                bad("is_source_or_sink_task", f"node {i}", adj)
                    bump("depth_probes", len(probe))
                    if sorted(idx(x) for x in g.get_sources()) != sorted(i for i in adj if not par[i]):
                        bad("get_sources", f"{[idx(x) for x in g.get_sources()]}", adj)
                    if flavour == "task":
                        if sorted(idx(x) for x in g.get_sink_tasks()) != sorted(i for i in adj if not adj[i]) or \
                                sorted(idx(x) for x in g.get_source_tasks()) != sorted(i for i in adj if not par[i]):
                            bad("get_source_or_sink_tasks", "", adj)
                except Exception as e:
                    bad("depth_raises", f"{type(e).__name__}: {e}", adj)
                # are_dependent
                try:
                    prs = list(itertools.combinations(adj, 2))
                    if len(prs) > 15:
                        prs = rng.sample(prs, 15)
                    for a, b in prs:
                        exp = (b in ref_reach(adj, a)) or (a in ref_reach(adj, b))
                        if rng.random() < 0.5:
                            a, b = b, a
                        got = g.are_dependent(nodes[a], nodes[b])
                        if got != exp:
                            bad("are_dependent", f"are_dependent({a},{b}) = {got}, reachability says {exp}", adj)
                        bump("are_dependent")
                except Exception as e:
                    bad("are_dependent_raises", f"{type(e).__name__}: {e}", adj)
                # traversals
                try:
                    bf = [idx(x) for x in g.breadth_first()]
                    posb = {}
                    for i, x in enumerate(bf):
                        posb.setdefault(x, i)
                    if sorted(bf) != sorted(adj):
                        bad("breadth_first_nodes", f"yielded {bf}", adj)
                    elif any(posb[p] > posb[c] for p in adj for c in adj[p]):
                        bad("breadth_first_order", f"yielded {bf}", adj)
                    if [idx(x) for x in iter(g)] != bf:
                        bad("iter_not_breadth_first", "", adj)
                    bump("breadth_first")
                    starts = list(adj) if n <= 8 else rng.sample(list(adj), 5)
                    for s in starts:
                        df = [idx(x) for x in g.depth_first(nodes[s])]
                        exp = ref_reach(adj, s) | {s}
                        if set(df) != exp:
                            bad("depth_first_set", f"from {s}: yielded {df}, reachable {sorted(exp)}", adj)
                        elif len(df) != len(set(df)):
                            bad("depth_first_duplicates", f"from {s}: yielded {df}", adj)
                        bump("depth_first")
                        # breadth-first from a node: the property promises "every node once with parents first" for the
                        # iteration; from a start node the weakest reading is judged -- nothing twice, nothing that is not
                        # reachable from the start, no node before one of its parents that is yielded too.  (Completeness is
                        # not judged: the unchanged code leaves out a descendant one of whose parents is an ANCESTOR of the
                        # start node, e.g. A->B, A->C, B->C: breadth_first(B) yields only B.)
                        bfs = [idx(x) for x in g.breadth_first(nodes[s])]
                        posn = {}
                        for i, x in enumerate(bfs):
                            posn.setdefault(x, i)
                        if len(bfs) != len(set(bfs)):
                            bad("breadth_first_from_node_duplicates", f"from {s}: yielded {bfs}", adj)
                        elif not set(bfs) <= exp:
                            bad("breadth_first_from_node_unreachable", f"from {s}: yielded {bfs}, reachable {sorted(exp)}", adj)
                        elif any(p in posn and c in posn and posn[p] > posn[c] for p in adj for c in adj[p]):
                            bad("breadth_first_from_node_order", f"from {s}: yielded {bfs}", adj)
                        bump("breadth_first_from_node")
                    dfa = [idx(x) for x in g.depth_first()]
                    if set(dfa) != set(adj) or len(dfa) != len(set(dfa)):
                        bad("depth_first_all" if set(dfa) != set(adj) else "depth_first_duplicates", f"from sources: yielded {dfa}", adj)
                except Exception as e:
                    bad("traversal_raises", f"{type(e).__name__}: {e}", adj)

            if incremental:
                # the graph is grown through its public mutators and judged in between: whatever an earlier query
                # computed (orders, depths, paths) must not survive a later add_node / add_child / remove
                plan = grow_plan(adj, rng)
                cur = {}
                g = make_empty()
                for op in plan:
                    if op[0] == "node":
                        _, k, cs = op
                        add_with_children(g, k, cs)
                        cur.setdefault(k, [])
                        for c in cs:
                            cur[k].append(c)
                            cur.setdefault(c, [])
                        bump("mutations_add_node")
                    elif op[0] == "child":
                        _, a, b = op
                        g.add_child(nodes[a], nodes[b])
                        cur[a].append(b)
                        cur.setdefault(b, [])
                        bump("mutations_add_child")
                    elif op[0] == "remove":
                        _, k = op
                        if k in cur and not any(k in cs for cs in cur.values()):
                            g.remove(nodes[k])
                            del cur[k]
                            bump("mutations_remove_source")
                    else:
                        if cur:
                            bump("queries_between_mutations")
                            judge(g, {k: list(v) for k, v in cur.items()}, has_cycle(cur))
                if cur:
                    judge(g, {k: list(v) for k, v in cur.items()}, has_cycle(cur))
                adj = cur
                edges = sum(len(c) for c in adj.values())
            else:
                judge(g, adj, cyclic)
                edges = sum(len(c) for c in adj.values())
            if len(samples) < 2 and edges >= 3:
                samples.append({"adjacency": adj, "weights": w, "flavour": flavour, "insertion_order": [k for k, _ in mapping]})
        return {"viol": viol, "counters": counters, "samples": samples, "nontrivial": sorted(nontrivial),
                "exhaustive_part": spec["kind"] == "enum"}

    def conclude(self, results, tier, seed):
        viol = [v for r in results for v in r["viol"]]
        tot = {}
        for r in results:
            for k, v in r["counters"].items():
                tot[k] = tot.get(k, 0) + v
        nt = set()
        for r in results:
            nt.update(r["nontrivial"])
        inconclusive = []
        if tot.get("cycle_reported", 0) + sum(1 for v in viol if v["kind"].startswith("cycle")) < 100:
            inconclusive.append("fewer than 100 cyclic graphs")
        for k in ("flavour_graph", "flavour_task", "flavour_job", "depth_first", "are_dependent", "critical_path",
                  "queries_between_mutations", "mutations_add_child"):
            if tot.get(k, 0) < 300:
                inconclusive.append(f"{k} evaluated {tot.get(k, 0)} times")
        cov = {"evaluations": tot.get("graphs", 0), "distinct_nontrivial": len(nt),
               "rule": "every upper-triangular DAG on 1..5 nodes (x3 insertion orders; quick: 1/8 of the 6-node ones, thorough: all "
                       "32768 x6 orders), random DAGs of 6-40 nodes, cyclic graphs, and graphs of 2-9 nodes grown step by step through "
                       "add_node/add_task/add_job, add_child and remove with every routine queried between the mutations "
                       "(a closing edge or the removal of a source at the end); each built as Graph / TaskGraph / JobGraph "
                       "with random positive weights incl. ties; non-trivial = distinct adjacency with >=2 edges and a node with >=2 parents",
               "samples": [s for r in results for s in r["samples"]][:5],
               "exhaustive": False,
               "explanation_exhaustive": "the enumerated part (all DAGs up to 5 nodes in quick, up to 6 in thorough) is complete; the random part is not",
               "counters": tot}
        return {"violations": viol, "coverage": cov, "inconclusive": inconclusive,
                "assumptions": ["brute-force reference on integer adjacency dictionaries"]}


def get_check(pid):
    return GraphCheck()
