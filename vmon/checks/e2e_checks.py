"""C01 C02 C03 C05 C06 C07 C08: complete simulations of generated worlds with the
e2e monitors attached (vmon/e2e.py, vmon/e2e_final.py)."""
import os
import shutil

from .. import common, worldgen

# (profile, overrides, share) — shares are scaled to the tier's world count
BATCHING_FLAGS = {"scheduler_enable_batching": True, "enforce_deadlines": True, "ilp_goal": "max_goodput", "scheduler_lookahead": 0,
                  "drop_skipped_tasks": False}
BASE_MIX = [
    ("greedy", {}, 0.33),
    ("greedy", {"zero_runtime": True, "specific_ids": 0.4, "multi_instance": 0.6}, 0.12),
    ("greedy", {"flags": {"enforce_deadlines": True}, "deadline_variances": [(0, 0), (0, 20), (10, 50)],
                "scheduler_choices": ["EDF"]}, 0.10),
    ("greedy", {"max_pools": 1, "max_workers": 2, "max_q": 2, "frequencies": [-1, 1, 3], "delays": [0, 1, 3]}, 0.15),
    ("planner", {}, 0.20),
    ("clockwork", {}, 0.10),
    # memory for one or two of three or four models: the policy must evict (and re-load) models to serve all of them
    ("clockwork", {"tight_memory": True, "p_preload": 0.0, "max_invocations": 10}, 0.05),
    # the batching mode of the planners: small bursts of model-serving requests (see worldgen: small_burst)
    ("clockwork", {"small_burst": True, "loop_timeout": 150, "flags": dict(BATCHING_FLAGS, scheduler="ILP")}, 0.03),
    ("clockwork", {"small_burst": True, "loop_timeout": 150,
                   "flags": dict(BATCHING_FLAGS, scheduler="TetriSched_CPLEX", scheduler_time_discretization=1, scheduler_plan_ahead=12)}, 0.03),
    # ... with runtime variance: the members of one running batch then finish at different times
    ("clockwork", {"small_burst": True, "loop_timeout": 500, "runtime_scale": 10,
                   "flags": dict(BATCHING_FLAGS, scheduler="ILP", runtime_variance=50)}, 0.03),
    ("clockwork", {"small_burst": True, "loop_timeout": 500, "runtime_scale": 10,
                   "flags": dict(BATCHING_FLAGS, scheduler="TetriSched_CPLEX", scheduler_time_discretization=5, scheduler_plan_ahead=100,
                                 runtime_variance=50)}, 0.03),
]

N_WORLDS = {"quick": 320, "thorough": 7000}
# direct-drive simulations with the chaos policy (vmon/direct.py): multi-timestamp graphs, hostile decisions
N_DIRECT = {"quick": 480, "thorough": 12000}
DIRECT_PIDS = ("C01", "C02", "C03", "C05", "C06", "C08", "C10")
N_DIRECT_C10 = {"quick": 240, "thorough": 6000}

RULES = {
    "C01": ("a world in which at some instant >=2 tasks were co-resident on one worker, or a placement was "
            "refused by a full worker (WORKER_NOT_READY path)",
            lambda s: "coresident" in s["flags_seen"] or "worker_not_ready" in s["flags_seen"], 60),
    "C02": ("a world in which a task was scheduled before its release / before its last parent finished "
            "(plan-ahead) or a placement was deferred (TASK_NOT_READY / WORKER_NOT_READY)",
            lambda s: bool({"plan_ahead", "not_ready", "worker_not_ready"} & set(s["flags_seen"])), 20),
    "C03": ("a world with at least one simulated instant at which a TASK_FINISHED and a TASK_PLACEMENT were both handled",
            lambda s: s["counters"].get("fin_place_groups", 0) > 0, 50),
    "C05": ("a terminated run of a feasible world under a work-conserving policy (EDF/FIFO/LSF, no enforcement, no dropping)",
            lambda s: s.get("work_conserving", False), 40),
    "C06": ("a world in which a task with descendants was cancelled",
            lambda s: "cancel_with_descendants" in s["flags_seen"], 30),
    "C07": ("a world in which at least one conditional task completed",
            lambda s: s["counters"].get("conditional_completions", 0) > 0, 20),
    "C08": ("a terminated run whose trace was parsed by CSVReader or compared row by row, with at least one "
            "cancelled task or one missed deadline",
            lambda s: bool({"cancelled_tasks", "missed_deadline"} & set(s["flags_seen"])), 20),
}


class E2ECheck:
    def __init__(self, pid):
        self.pid = pid

    def shard_timeout(self, tier):
        return 900 if tier == "quick" else 7200

    def mix(self, tier):
        if self.pid == "C07":
            # cond_empty: one branch of the conditional is a bare edge to the join
            cond = ["cond", "cond_nested", "multi_cond", "multi_cond", "multi_cond", "cond_dag", "cond_empty", "cond_empty", "cond_open"]
            return BASE_MIX + [
                ("greedy", {"shapes": cond}, 0.2),
                ("greedy", {"shapes": cond, "flags": {"resolve_conditionals_at_submission": True}}, 0.25),
                ("planner", {"shapes": cond, "max_nodes": 8, "flags": {"resolve_conditionals_at_submission": True}}, 0.05),
                # zero-runtime (no-op) branch tasks: the join's placement can fire at the very instant the branch resolves
                ("greedy", {"shapes": cond, "zero_runtime": True, "scheduler_choices": ["EDF", "EDF", "LSF"]}, 0.3),
            ]
        if self.pid == "C02":
            # joins of conditionals under policies that plan ahead (the join is scheduled before it is released), incl. the
            # conditional that is wired straight to its join
            return BASE_MIX + [("planner", {"shapes": ["cond_empty", "cond", "cond_empty"], "max_nodes": 6,
                                            "flags": {"scheduler_lookahead": 20}}, 0.08),
                               ("planner", {"shapes": ["cond_empty", "cond"], "max_nodes": 6, "flags": {"release_taskgraphs": True},
                                            "scheduler_choices": ["ILP", "TetriSched_Gurobi"]}, 0.06)]
        if self.pid == "C05":
            # loop timeouts that strike mid-run (running / scheduled / unreleased work at the timeout)
            return BASE_MIX + [("greedy", {"tight_timeout": True, "frequencies": [-1, 1, 3, 10, 25]}, 0.15),
                               ("planner", {"tight_timeout": True}, 0.04),
                               # sparse arrivals: the cluster drains and sits idle between the invocations of a graph, under a
                               # streaming loader whose updates come more often than the arrivals
                               ("greedy", {"release_policies": ["fixed"], "periods": [30, 60, 90], "max_invocations": 4, "max_graphs": 2,
                                           "flags": {"workload_update_interval": 5}, "p_enforce": 0.0, "p_drop": 0.0}, 0.12)]
        return BASE_MIX

    def shards(self, tier, seed):
        n = int(os.environ.get("VERIF_N", N_WORLDS[tier]))
        specs = []
        nshards = 16 if tier == "quick" else 64
        for profile, over, share in self.mix(tier):
            cnt = max(1, int(n * share))
            per = max(1, -(-cnt // max(1, int(nshards * share) or 1)))
            start = 0
            while start < cnt:
                specs.append({"seed": seed, "profile": profile, "over": over, "start": start,
                              "count": min(per, cnt - start), "pid": self.pid})
                start += per
        if self.pid in ("C10", "C11", "C12"):
            specs += self.shadow_direct_shards(tier, seed)
        elif self.pid in DIRECT_PIDS:
            nd = int(os.environ.get("VERIF_N_DIRECT", N_DIRECT[tier]))
            per = -(-nd // 8)
            for start in range(0, nd, per):
                specs.append({"seed": seed, "kind": "direct", "profile": "direct", "over": {}, "start": start,
                              "count": min(per, nd - start), "pid": self.pid})
        return specs

    def shadow_direct_shards(self, tier, seed):
        """chaos-driven runs in which the bundled policies are shadow-invoked (C10; C11 / C12 attach their decision hooks):
        for C10 two thirds, for C11 / C12 all of them on graphs the planners accept"""
        nd = int(os.environ.get("VERIF_N_DIRECT", N_DIRECT_C10[tier] if self.pid == "C10" else N_DIRECT_C10[tier] // 2))
        per = -(-nd // (12 if tier == "quick" else 48))
        out = []
        for k, start in enumerate(range(0, nd, per)):
            out.append({"seed": seed, "kind": "direct", "profile": "direct", "over": {}, "start": start,
                        "count": min(per, nd - start), "pid": self.pid, "shadow": True,
                        "variant": None if (self.pid == "C10" and k % 3 == 2) else "planner"})
        return out

    def replay_spec(self, case):
        spec = {"seed": case["seed"], "profile": case["profile"], "over": case["over"],
                "start": case["index"], "count": 1, "pid": self.pid, "replay": True}
        if case["profile"] == "direct":
            spec["kind"] = "direct"
            spec["variant"] = case.get("variant")
            spec["shadow"] = case.get("shadow", False)
        return spec

    def run_direct_shard(self, spec):
        from .. import direct
        out = []
        for idx in range(spec["start"], spec["start"] + spec["count"]):
            variant = spec.get("variant")
            if variant is None and not spec.get("shadow") and idx % 5 == 4:
                variant = "loader"  # graphs arrive through a streaming workload loader with quiet windows
            elif variant is None and not spec.get("shadow") and idx % 5 == 2:
                variant = "latent"  # the policy takes simulated time to answer: its decisions are applied on a state that moved on
            world = direct.gen_direct((spec["seed"], idx), variant=variant)
            ctx = direct.run_direct(world, shadow=spec.get("shadow", False),
                                    decision_hooks=self.opts().get("decision_hooks", ()) if spec.get("shadow") else ())
            flags = set(ctx.flags)
            if "planned_before_release" in flags:
                flags.add("plan_ahead")
            counters = {"direct_" + k: v for k, v in ctx.counters.items()}
            counters["direct_worlds"] = 1
            counters["direct_multi_timestamp_graphs"] = sum(1 for g in world["graphs"] if g["kind"] == "stream")
            if ctx.ended:
                counters["ev_SIMULATOR_END"] = 1
            viol = [dict(v, case={"seed": spec["seed"], "profile": "direct", "over": {}, "index": idx, "variant": spec.get("variant"),
                               "shadow": spec.get("shadow", False)}, case_id=f"direct/{spec.get('variant')}/{idx}",
                         facts=dict(v.get("facts") or {}, scheduler="Chaos", direct=True)) for v in ctx.viol if v["prop"] == self.pid]
            if spec.get("shadow") and (ctx.counters.get("shadow_calls_busy", 0) > 0):
                counters["shadow_calls_busy"] = ctx.counters["shadow_calls_busy"]  # same name as in e2e runs: the C10 rule reads it
            s = {"index": idx, "profile": "direct", "hash": common.case_hash(world), "status": ctx.status, "exception": ctx.exception,
                 "flags_seen": sorted(flags), "counters": counters, "viol": viol, "scheduler": "Chaos(direct)", "work_conserving": False,
                 "cell": ["Chaos", world["frequency"], 0], "end": None, "ntasks": len(ctx.rec), "wall": round(ctx.wall, 3)}
            if ctx.status == "exception":
                s["counters"]["direct_exception"] = 1
            if idx % 150 == 0:
                s["sample"] = {"direct": True, "policy": world["policy"], "graphs": [{"kind": g["kind"], "tasks": len(g["tasks"]), "edges": len(g["edges"])}
                                                                                      for g in world["graphs"]], "status": ctx.status,
                               "starts": ctx.counters.get("starts", 0)}
            out.append(s)
        return {"worlds": out}

    def run_shard(self, spec, workdir):
        if spec.get("kind") == "direct":
            return self.run_direct_shard(spec)
        from .. import e2e
        out = []
        for idx in range(spec["start"], spec["start"] + spec["count"]):
            over = dict(spec["over"])
            sc = over.pop("scheduler_choices", None)
            if sc:
                over["scheduler"] = sc[idx % len(sc)]
            world = worldgen.gen_world(spec["seed"], idx, spec["profile"], **over)
            wd = os.path.join(workdir, f"w{idx}")
            ctx = e2e.run_world(world, wd, opts=self.opts())
            shutil.rmtree(wd, ignore_errors=True)
            out.append(self.summarize(world, ctx, spec, idx))
        return {"worlds": out}

    def opts(self):
        return {}

    def summarize(self, world, ctx, spec, idx):
        groups = 0
        for t, names in ctx.samegroup.items():
            if "TASK_FINISHED" in names and "TASK_PLACEMENT" in names:
                groups += 1
        ctx.counters["fin_place_groups"] = groups
        ctx.counters["same_us_groups_3types"] = sum(1 for names in ctx.samegroup.values() if len(names) >= 3)
        viol = [dict(v, case={"seed": spec["seed"], "profile": spec["profile"], "over": spec["over"], "index": idx},
                     case_id=f"{spec['profile']}/{idx}",
                     facts=dict(v.get("facts", {}), scheduler=world["flags"]["scheduler"]))
                for v in ctx.violations if v["prop"] == self.pid]
        s = {"index": idx, "profile": spec["profile"], "hash": world["hash"], "status": ctx.status,
             "exception": ctx.exception, "flags_seen": sorted(getattr(ctx, "flags_seen", set())),
             "counters": ctx.counters, "viol": viol, "scheduler": world["flags"]["scheduler"],
             "work_conserving": bool(getattr(ctx, "work_conserving", False)) and ctx.status == "ended",
             "cell": [world["flags"]["scheduler"], world["flags"]["scheduler_frequency"], world["flags"]["scheduler_delay"]],
             "end": ctx.end_time, "ntasks": len(ctx.tasks), "wall": round(ctx.wall, 3)}
        if idx % 40 == 0:
            s["sample"] = {"flags": world["flags"], "shapes": world["meta"]["shapes"],
                           "cluster": world["cluster"], "status": ctx.status, "end_time": ctx.end_time,
                           "tasks": len(ctx.tasks), "events": len(ctx.log),
                           "trace_tail": [r for r in ctx.csv if not r.startswith("input_flag")][-6:]}
        return s

    def conclude(self, results, tier, seed):
        worlds = [w for r in results for w in r["worlds"]]
        rule, pred, need = RULES[self.pid]
        violations = [v for w in worlds for v in w["viol"]]
        nontrivial = {w["hash"] for w in worlds if pred(w)}
        tot = {}
        for w in worlds:
            for k, v in w["counters"].items():
                tot[k] = tot.get(k, 0) + v
        status = {}
        for w in worlds:
            status[w["status"]] = status.get(w["status"], 0) + 1
        cells = {tuple(w["cell"]) for w in worlds if w["status"] == "ended"}
        per_policy = {}
        for w in worlds:
            per_policy[w["scheduler"]] = per_policy.get(w["scheduler"], 0) + 1
        samples = [w["sample"] for w in worlds if "sample" in w][:5]
        inconclusive = []
        scale = 1 if tier == "quick" else 4
        if len(nontrivial) < need * (1 if tier == "quick" else scale):
            inconclusive.append(f"only {len(nontrivial)} non-trivial worlds (< {need * scale})")
        # a world stopped by the wall-clock alarm was not explored (it is neither held nor violated); a few of them on a
        # loaded machine do not undo what the other worlds showed, as long as every deciding floor below is still met
        if status.get("wallclock", 0) > max(3, len(worlds) // 25):
            inconclusive.append(f"{status['wallclock']} of {len(worlds)} worlds hit the wall-clock alarm")
        deciding = self.deciding_counters(tot)
        for name, val, minimum in deciding:
            if val < minimum:
                inconclusive.append(f"deciding monitor '{name}' evaluated {val} times (< {minimum})")
        cov = {"evaluations": len(worlds), "distinct_nontrivial": len(nontrivial),
               "rule": "worlds = (cluster, workload, flags) drawn by vmon/worldgen.py from (VERIF_SEED, index, profile) and run "
                       "through main.main with class-level monitors; distinct = hash of the generated inputs; non-trivial = " + rule,
               "samples": samples, "run_status": status, "policy_worlds": per_policy,
               "policy_x_frequency_x_delay_cells": len(cells),
               "monitor_counters": {k: tot.get(k, 0) for k in sorted(tot) if not k.startswith("ev_")},
               "events_handled": {k[3:]: v for k, v in tot.items() if k.startswith("ev_")},
               "deciding": [{"monitor": n, "evaluations": v, "minimum": m} for n, v, m in deciding]}
        return {"violations": violations, "coverage": cov, "inconclusive": inconclusive,
                "assumptions": ["ground truth is the harness' own event log, shadow cluster and the generated descriptions",
                                "worlds stay within the small dimensions listed in DESIGN.md section 2.2"]}

    def deciding_counters(self, tot):
        p = self.pid
        if p == "C01":
            return [("shadow capacity check after live place/load", tot.get("c01_checks", 0), 500),
                    ("direct-drive recount after place_task under the chaos policy", tot.get("direct_live_place", 0), 1000),
                    ("utilization rows vs shadow", tot.get("utilization_rows", 0), 500),
                    ("direct-drive profile loads applied under the chaos policy", tot.get("direct_live_load", 0), 100),
                    ("direct-drive batch placements recounted (a batch counts once)", tot.get("direct_live_batch_place", 0), 100),
                    ("worker profile tables compared with the harness' record of successful loads", tot.get("direct_profile_table_checks", 0), 10000),
                    ("applied profile loads compared with the decided loading strategy (e2e + direct)",
                     tot.get("applied_profile_loads_judged", 0) + tot.get("direct_applied_profile_loads_judged", 0), 200),
                    ("direct-drive re-loads of a resident profile in one answer (evict + load)", tot.get("direct_chaos_reloads_in_place", 0), 20)]
        if p == "C02":
            return [("Task.start ordering automaton", tot.get("starts", 0), 1000),
                    ("direct-drive starts of tasks with parents under the chaos policy", tot.get("direct_starts_with_parents", 0), 1000),
                    ("direct-drive multi-timestamp graphs", tot.get("direct_multi_timestamp_graphs", 0), 200),
                    ("direct-drive releases of tasks that carry their own declared release time", tot.get("direct_releases_with_declared_time", 0), 300),
                    ("direct-drive answers of a policy that takes simulated time to compute", tot.get("direct_chaos_calls_with_latency", 0), 500),
                    ("... decisions that arrived after their task had started", tot.get("direct_stale_decisions_for_started_tasks", 0), 30)]
        if p == "C03":
            return [("completion exactness", tot.get("completions_checked", 0), 1000),
                    ("queue order at pop", tot.get("pops", 0), 5000),
                    ("first placement attempts judged", tot.get("started_at_chosen_time", 0), 500),
                    ("due-completion checks (e2e + direct)", tot.get("due_completion_checks", 0) + tot.get("direct_due_completion_checks", 0), 5000)]
        if p == "C05":
            return [("terminated runs", tot.get("ev_SIMULATOR_END", 0), 200),
                    ("runs whose loop timeout struck while work was in flight or unreleased", tot.get("ended_at_timeout_with_work", 0), 20),
                    ("direct-drive runs judged by the early-end rule", tot.get("direct_early_end_judged", 0), 100),
                    ("streaming-loader updates that found nothing new (quiet windows)", tot.get("direct_loader_quiet_windows", 0), 200)]
        if p == "C06":
            return [("task state transitions", tot.get("transitions", 0), 3000), ("cancellations", tot.get("cancels", 0), 100),
                    ("direct-drive transitions under the chaos policy", tot.get("direct_transitions", 0), 3000),
                    ("unschedule fall-backs judged (e2e + direct)", tot.get("unschedule_fallbacks_checked", 0) + tot.get("direct_unschedule_fallbacks_checked", 0), 40),
                    ("direct-drive re-plans of an already scheduled task", tot.get("direct_replans_of_scheduled_task", 0), 100),
                    ("direct-drive cancellations by the chaos policy", tot.get("direct_cancels", 0), 50)]
        if p == "C07":
            return [("conditional completions", tot.get("conditional_completions", 0), 100),
                    ("conditional blocks judged at end", tot.get("cond_blocks_checked", 0), 100),
                    ("completions of conditionals resolved at submission judged against the snapshot", tot.get("resolution_snapshots_judged", 0), 50),
                    ("conditionals with an empty branch completed", tot.get("empty_branch_completions", 0), 30),
                    ("... of which the empty branch was the one taken", tot.get("empty_branch_taken", 0), 5),
                    ("completions of a conditional that is also the join of the previous one", tot.get("conditional_completions_of_a_join", 0), 10)]
        if p == "C08":
            return [("CSV rows compared", tot.get("csv_rows", 0), 10000), ("traces parsed by CSVReader", tot.get("csvreader_parsed", 0), 150),
                    ("direct-drive TASK_RELEASE rows judged (profiles of different graphs share names)", tot.get("direct_release_rows_judged", 0), 1000),
                    ("scheduler rows compared", tot.get("scheduler_rows_checked", 0), 1000)]
        return []


def get_check(pid):
    return E2ECheck(pid)
