"""C09: two fresh processes with identical inputs and seed produce the same trace.

Each world is run twice as `python main.py <flags>` in fresh processes with
different PYTHONHASHSEED (1 and 2) and different output directories; the CSVs are
compared row by row after masking wall-clock fields and output-path flags."""
import os
import shutil
import subprocess

from .. import common, worldgen

MASK_FLAGS = ("log_dir", "csv_file_name", "log_file_name", "log")  # output locations


def normalise(path):
    rows = []
    with open(path) as f:
        for line in f:
            p = line.rstrip("\n").split(",")
            if p[0] == "input_flag" and len(p) > 1 and p[1] in MASK_FLAGS:
                continue
            if len(p) > 1 and p[1] == "SCHEDULER_FINISHED":
                p = p[:5] + ["<wall>"]
            rows.append(",".join(p))
    return rows


class ReproCheck:
    pid = "C09"

    def shard_timeout(self, tier):
        return 1200 if tier == "quick" else 7200

    def shards(self, tier, seed):
        n = 48 if tier == "quick" else 800
        k = 16
        per = -(-n // k)
        return [{"seed": seed, "start": i * per, "count": per} for i in range(k)]

    def replay_spec(self, case):
        return {"seed": case["seed"], "start": case["index"], "count": 1}

    def world(self, seed, idx):
        # cycle through the sources of randomness so that each is used by several worlds
        # (the even residues of idx % 8 are the greedy worlds: number them consecutively so that every source gets its share)
        src = ["deadline_variance", "poisson", "gamma", "conditional", "runtime_variance", "mixed"][((idx // 8) * 4 + (idx % 8) // 2) % 6]
        over = {"flags": {"scheduler_frequency": -1}, "max_pools": 2}
        if src == "deadline_variance":
            over.update(release_policies=["fixed"], deadline_variances=[(10, 100), (50, 200)], allow_cond=False,
                        variances=[0])
        elif src == "poisson":
            over.update(release_policies=["poisson"], max_invocations=4, variances=[0])
        elif src == "gamma":
            over.update(release_policies=["gamma"], max_invocations=4, variances=[0])
        elif src == "conditional":
            over.update(shapes=["cond", "multi_cond", "cond_nested"], release_policies=["fixed"], variances=[0])
            over["flags"]["resolve_conditionals_at_submission"] = False
        elif src == "runtime_variance":
            over.update(variances=[20, 50], release_policies=["fixed"])
        prof = "clockwork" if idx % 4 == 3 else "greedy"
        cover = {}
        if idx % 8 == 5:
            # a planner that forms candidate batches / reward sets from SETS of tasks: a burst of requests of one or two
            # models with equal deadlines on a worker that cannot run them all at once
            sched = ["ILP", "ILP", "TetriSched_CPLEX"][(idx // 8) % 3]
            fl = {"scheduler": sched, "scheduler_enable_batching": True, "enforce_deadlines": True, "ilp_goal": "max_goodput",
                  "scheduler_lookahead": 0, "drop_skipped_tasks": False}
            if sched != "ILP":
                fl.update(scheduler_time_discretization=1, scheduler_plan_ahead=12)
            w = worldgen.gen_world(seed, idx, "clockwork", small_burst=True, burst_equal=True, flags=fl)
            w["meta"]["source"] = "batching_planner"
            return w
        if idx % 16 == 2:
            # a LARGE workload: every application replicated ten times (30 job graphs and more, several invocations each,
            # deadline variance), as the trace-replay experiments have them
            w = worldgen.gen_world(seed, idx, "greedy", flags={"scheduler_frequency": -1, "replication_factor": 10, "workload_update_interval": -1},
                                   max_graphs=3, max_invocations=4, max_nodes=5, allow_cond=False, variances=[0],
                                   release_policies=["fixed", "poisson"], deadline_variances=[(10, 100), (50, 200)])
            w["flags"]["loop_timeout"] = min(w["flags"]["loop_timeout"], 3000)
            w["meta"]["source"] = "many_graphs"
            return w
        if idx % 8 == 1:
            w = worldgen.gen_world(seed, idx, "planner", flags={"scheduler_frequency": -1}, allow_cond=False, variances=[0])
            w["meta"]["source"] = "planner"
            return w
        if prof == "clockwork":
            # half of the model-serving worlds: several models whose requests arrive together with equal deadlines (ties
            # between models), under both goals
            if idx % 8 == 7:
                cover = {"tied": True, "flags": {"clockwork_goal": ["clockwork", "least_slack"][(idx // 8) % 2]}}
        if prof == "clockwork":
            # fresh `python main.py` processes have no harness to pre-load models: the policy loads them itself
            cover = dict(cover, p_preload=0.0)
        w = worldgen.gen_world(seed, idx, prof, **(over if prof == "greedy" else cover))
        w["meta"]["source"] = src if prof == "greedy" else ("clockwork_tied" if cover.get("tied") else "clockwork")
        return w

    def run_shard(self, spec, workdir):
        out = []
        for idx in range(spec["start"], spec["start"] + spec["count"]):
            world = self.world(spec["seed"], idx)
            rows = []
            errs = []
            tool_limit = False
            timed_out = False
            din = os.path.join(workdir, f"w{idx}_in")
            argv0, paths0 = worldgen.write_world(world, din)
            # where the order of a small set decides (ties between a few models, candidate batches of a few requests) two hash
            # salts agree by chance half of the time: four processes there
            seeds = ("1", "2", "3", "4") if world["meta"]["source"] in ("clockwork_tied", "batching_planner") else ("1", "2")
            for run, hs in enumerate(seeds):
                d = os.path.join(workdir, f"w{idx}_{run}")
                os.makedirs(d, exist_ok=True)
                argv = [a for a in argv0 if not a.startswith("--log_file_name") and not a.startswith("--log_dir")]
                argv.append(f"--log_dir={d}")
                paths = {"csv": os.path.join(d, "trace.csv")}
                env = dict(os.environ, PYTHONHASHSEED=hs, PYTHONDONTWRITEBYTECODE="1")
                env.pop("PYTHONPATH", None)
                try:
                    r = subprocess.run([common.PY, os.path.join(common.REPO, "main.py")] + argv[1:],
                                       cwd=d, env=env, stdout=subprocess.DEVNULL, stderr=subprocess.PIPE,
                                       timeout=300, text=True)
                    if r.returncode != 0:
                        if "size-limited license" in r.stderr or "Community Edition" in r.stderr or "CPLEX Error  1016" in r.stderr:
                            tool_limit = True  # the solver licence rejects the model: tooling, not a verdict
                        else:
                            errs.append(f"run {run}: exit {r.returncode}: {r.stderr[-300:]}")
                        continue
                    rows.append(normalise(paths["csv"]))
                except subprocess.TimeoutExpired:
                    # a process that does not finish within the wall-clock limit (loaded machine, a solver that does not
                    # return): the world is not judged -- wall-clock is tooling, never a verdict
                    tool_limit = True
                    timed_out = True
            res = {"index": idx, "hash": world["hash"], "source": world["meta"]["source"],
                   "scheduler": world["flags"]["scheduler"], "errors": errs, "viol": [], "tool_limit": tool_limit, "timed_out": timed_out,
                   "ntypes": len({r["name"].split(":")[0] for p in world["cluster"] for w in p["workers"] for r in w["resources"]})}
            if len(rows) == len(seeds):
                a = rows[0]
                b = next((r_ for r_ in rows[1:] if r_ != a), rows[1])
                res["rows"] = len(a)
                if a != b:
                    first = next((i for i, (x, y) in enumerate(zip(a, b)) if x != y), min(len(a), len(b)))
                    ra = a[first] if first < len(a) else "<end>"
                    rb = b[first] if first < len(b) else "<end>"
                    kind_row = (ra.split(",") + ["?", "?"])[1]
                    same_multiset = sorted(a) == sorted(b)
                    res["viol"].append({
                        "kind": "trace_differs",
                        "detail": f"first difference at row {first}: PYTHONHASHSEED=1 -> {ra!r} ; another salt -> {rb!r} "
                                  f"({'same rows in another order' if same_multiset else 'different rows'}); source={res['source']}",
                        "case": {"seed": spec["seed"], "index": idx}, "case_id": str(idx),
                        "facts": {"first_row_type": kind_row, "same_multiset": same_multiset, "source": res["source"]}})
                if idx % 8 == 0:
                    res["sample"] = {"flags": world["flags"], "source": res["source"], "rows": len(a), "tail": a[-3:]}
            for d in [os.path.join(workdir, f"w{idx}_{k}") for k in range(len(seeds))] + [din]:
                shutil.rmtree(d, ignore_errors=True)
            out.append(res)
        return {"worlds": out}

    def conclude(self, results, tier, seed):
        worlds = [w for r in results for w in r["worlds"]]
        viol = [v for w in worlds for v in w["viol"]]
        compared = [w for w in worlds if "rows" in w]
        per_source = {}
        for w in compared:
            per_source[w["source"]] = per_source.get(w["source"], 0) + 1
        errors = [e for w in worlds for e in w["errors"]]
        inconclusive = []
        if len(compared) < (12 if tier == "quick" else 300):
            inconclusive.append(f"only {len(compared)} process pairs compared; errors: {errors[:2]}")
        for s in ("deadline_variance", "poisson", "gamma", "conditional", "runtime_variance", "clockwork", "clockwork_tied",
                  "batching_planner", "planner", "many_graphs"):
            if per_source.get(s, 0) < 3:
                inconclusive.append(f"randomness source {s} in {per_source.get(s, 0)} pairs")
        if errors:
            inconclusive.append(f"{len(errors)} processes failed: {errors[0][:200]}")
        nto = sum(1 for w in worlds if w.get("timed_out"))
        if nto > max(2, 0.1 * len(worlds)):
            inconclusive.append(f"{nto} of {len(worlds)} worlds had a process that did not finish within its wall-clock limit")
        cov = {"evaluations": len(compared) * 2, "distinct_nontrivial": len({w["hash"] for w in compared}),
               "rule": "each world is executed twice by fresh `python main.py` processes with PYTHONHASHSEED=1 and =2 and separate "
                       "output directories; distinct = hash of the inputs; every world uses at least one source of randomness "
                       "(deadline variance, Poisson/Gamma arrivals, conditionals, runtime variance) and a deterministic policy",
               "samples": [w["sample"] for w in compared if "sample" in w][:4],
               "pairs_per_randomness_source": per_source,
               "pairs_with_two_or_more_resource_types": sum(1 for w in compared if w["ntypes"] >= 2),
               "rows_compared": sum(w["rows"] for w in compared), "process_errors": len(errors),
               "worlds_rejected_by_solver_licence": sum(1 for w in worlds if w.get("tool_limit") and not w.get("timed_out")),
               "worlds_with_a_process_over_its_wall_clock_limit": sum(1 for w in worlds if w.get("timed_out"))}
        return {"violations": viol, "coverage": cov, "inconclusive": inconclusive,
                "assumptions": ["one machine: different hash seeds and fresh processes stand in for 'other processes and machines'",
                                "masked: last column of SCHEDULER_FINISHED (measured wall clock) and input_flag rows of output paths"]}


def get_check(pid):
    return ReproCheck()
