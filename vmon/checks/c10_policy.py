"""C10: every policy returns a complete, feasible, side-effect-free decision.
(1) every schedule() call inside end-to-end runs; (2) shadow invocations: at each
SCHEDULER_START the other bundled policies are invoked on the same live state, their
answers are checked and discarded; (3) the same shadow invocations inside direct-drive
runs under the chaos policy (vmon/direct.py): states with plans in the future, overdue
placements, re-plans, cancellations and tasks below a parent that carry their own known
release time."""
from .e2e_checks import E2ECheck, RULES, BASE_MIX

RULES["C10"] = ("a world in which some schedule() call (live or shadow) saw running or previously scheduled tasks",
                lambda s: s["counters"].get("schedule_calls_busy", 0) + s["counters"].get("shadow_calls_busy", 0) > 0, 80)


class PolicyCheck(E2ECheck):
    def __init__(self):
        super().__init__("C10")

    def opts(self):
        return {"shadow_policies": True, "csvreader": False}

    def mix(self, tier):
        return [("greedy", {}, 0.3), ("greedy", {"zero_runtime": True, "specific_ids": 0.3, "multi_instance": 0.5}, 0.1),
                ("planner", {"loop_timeout": 150}, 0.45), ("clockwork", {}, 0.15)] + [m for m in BASE_MIX if m[1].get("small_burst")]

    def deciding_counters(self, tot):
        out = [("live schedule() calls", tot.get("schedule_calls", 0), 1500),
               ("shadow schedule() calls", tot.get("shadow_calls", 0), 3000),
               ("calls with running/scheduled tasks present", tot.get("schedule_calls_busy", 0) + tot.get("shadow_calls_busy", 0), 300)]
        for p in ("EDFScheduler", "FIFOScheduler", "LSFScheduler", "ILPScheduler", "TetriSchedGurobiScheduler",
                  "TetriSchedCPLEXScheduler", "ClockworkScheduler", "Z3Scheduler"):
            out.append((f"calls of {p}", tot.get("schedule_calls_" + p, 0) + tot.get("shadow_calls_" + p, 0), 30))
        out.append(("shadow calls on chaos-driven states (direct-drive)", tot.get("direct_shadow_calls", 0), 5000))
        for p in ("ILPScheduler", "TetriSchedGurobiScheduler", "TetriSchedCPLEXScheduler", "Z3Scheduler"):
            out.append((f"chaos-state calls of {p}", tot.get("direct_shadow_calls_" + p, 0), 20))
        out.append(("chaos-state calls that offered a task with a known future release",
                    tot.get("direct_shadow_calls_offered_future_release", 0), 30))
        return out


def get_check(pid):
    return PolicyCheck()
