"""C16: EventTime behaves as an exact integer of microseconds; EventQueue pops in
documented order after any mix of add / remove / in-place retime + reheapify / pop.

Direct drive of the real classes against an integer model / a reference sorted list.
"""
import random

from .. import common
from ..common import seed_int, case_hash

MUL = {"US": 1, "MS": 1000, "S": 1000000}
BOUND = 2 ** 53
EDGE_US = [0, 1, -1, 2, 999, 1000, 1001, 999999, 1000000, 1000001, -999, -1000, -1001, -1000000,
           BOUND - 1, -(BOUND - 1), 123456789, 42]


def gen_value(rng):
    """(time in unit, unit name) with |us| < 2^53."""
    u = rng.choice(["US", "MS", "S"])
    mode = rng.random()
    if mode < 0.35:
        us = rng.choice(EDGE_US)
        us += rng.choice([0, 0, 1, -1])
        # representable in the unit?  round towards a multiple
        t = int(us / MUL[u]) if MUL[u] > 1 else us
        if rng.random() < 0.5 and MUL[u] > 1:
            t = us // MUL[u]
    elif mode < 0.7:
        t = rng.randint(-2000, 2000)
    else:
        lim = (BOUND - 1) // MUL[u]
        t = rng.randint(-lim, lim)
    if abs(t * MUL[u]) >= BOUND:
        t = (BOUND - 1) // MUL[u] * (1 if t > 0 else -1)
    return t, u


class TimeCheck:
    pid = "C16"

    def shard_timeout(self, tier):
        return 900 if tier == "quick" else 7200

    def shards(self, tier, seed):
        n_val = 160000 if tier == "quick" else 5000000
        n_q = 12000 if tier == "quick" else 300000
        k = 16
        n_sim = 64 if tier == "quick" else 1600
        per = -(-n_sim // 8)
        # the simulator's own queue in real runs: events are re-timed by the simulator (a re-planned task's cached
        # TASK_PLACEMENT, the SCHEDULER_START pulled back by a release) through whatever path it uses for that
        sims = [{"seed": seed, "sim": True, "start": i * per, "count": per} for i in range(8)]
        return [{"seed": seed, "shard": i, "values": n_val // k, "queues": n_q // k} for i in range(k)] + sims

    def replay_spec(self, case):
        if case.get("sim"):
            return {"seed": case["seed"], "sim": True, "start": case["index"], "count": 1}
        return {"seed": case["seed"], "shard": case["shard"], "values": case.get("values", 0),
                "queues": case.get("queues", 0), "only": case.get("only")}

    # ------------------------------------------------------------------
    def run_sim_shard(self, spec, workdir):
        import os
        import shutil
        from .. import e2e, worldgen
        viol, counters = [], {}
        for idx in range(spec["start"], spec["start"] + spec["count"]):
            if idx % 2 == 0:
                world = worldgen.gen_world(spec["seed"], idx, "planner", loop_timeout=150,
                                           flags={"retract_schedules": True, "scheduler_lookahead": [2, 5, 20][idx % 3]})
            else:
                world = worldgen.gen_world(spec["seed"], idx, "greedy", delays=[1, 3], frequencies=[3, 10])
            wd = os.path.join(workdir, f"w{idx}")
            ctx = e2e.run_world(world, wd, opts={"csvreader": False, "finalize": False})
            shutil.rmtree(wd, ignore_errors=True)
            counters["sim_worlds"] = counters.get("sim_worlds", 0) + 1
            counters["sim_pops"] = counters.get("sim_pops", 0) + ctx.counters.get("pops", 0)
            counters["sim_replans_of_scheduled_tasks"] = counters.get("sim_replans_of_scheduled_tasks", 0) + sum(max(0, r.get("decisions", 0) - 1) for r in ctx.tasks.values())
            for v in ctx.violations:
                if v["kind"] == "queue_order":
                    viol.append({"kind": "simulator_queue_order", "detail": f"{world['flags']['scheduler']}: {v['detail']}",
                                 "case": {"seed": spec["seed"], "sim": True, "index": idx}, "case_id": f"sim/{idx}", "facts": {}})
        return {"viol": viol, "counters": counters, "samples": [], "pairs": []}

    def run_shard(self, spec, workdir):
        if spec.get("sim"):
            return self.run_sim_shard(spec, workdir)
        from utils import EventTime
        U = {"US": EventTime.Unit.US, "MS": EventTime.Unit.MS, "S": EventTime.Unit.S}
        rng = random.Random(seed_int("c16", spec["seed"], spec["shard"]))
        viol, counters, samples = [], {}, []
        pairs = set()

        def bump(k, n=1):
            counters[k] = counters.get(k, 0) + n

        def bad(kind, detail, idx):
            if len(viol) < 30:
                viol.append({"kind": kind, "detail": detail,
                             "case": {"seed": spec["seed"], "shard": spec["shard"], "values": spec["values"],
                                      "queues": spec["queues"]}, "case_id": f"{spec['shard']}/{idx}"})

        for i in range(spec["values"]):
            (ta, ua), (tb, ub), (tc, uc) = gen_value(rng), gen_value(rng), gen_value(rng)
            if rng.random() < 0.15:
                # equal values in different units
                us = ta * MUL[ua]
                ub = rng.choice(["US", "MS", "S"])
                if us % MUL[ub] == 0:
                    tb = us // MUL[ub]
            a, b, c = EventTime(ta, U[ua]), EventTime(tb, U[ub]), EventTime(tc, U[uc])
            ia, ib, ic = ta * MUL[ua], tb * MUL[ub], tc * MUL[uc]
            pairs.add((ua, ub))
            bump("tuples")
            desc = f"a={ta}{ua} b={tb}{ub} c={tc}{uc}"
            try:
                if (a == b) != (ia == ib):
                    bad("eq", f"{desc}: a==b is {a == b}, integers say {ia == ib}", i)
                if (a < b) != (ia < ib):
                    bad("lt", f"{desc}: a<b is {a < b}, integers say {ia < ib}", i)
                if (a <= b) != (ia <= ib):
                    bad("le", f"{desc}: a<=b is {a <= b}, integers say {ia <= ib}", i)
                if (a > b) != (ia > ib) or (a >= b) != (ia >= ib) or (a != b) != (ia != ib):
                    bad("cmp", f"{desc}: > >= != disagree with integers", i)
                if ia == ib:
                    bump("equal_pairs")
                    if hash(a) != hash(b):
                        bad("hash", f"{desc}: equal values, hashes {hash(a)} != {hash(b)}", i)
                    if len({a, b}) != 1:
                        bad("hash_set", f"{desc}: equal values are two set members", i)
                if abs(ia + ib) < BOUND:
                    s = a + b
                    if s.time * MUL[s.unit.name] != ia + ib:
                        bad("add", f"{desc}: a+b = {s.time}{s.unit.name} != {ia + ib}us", i)
                    if MUL[s.unit.name] != min(MUL[ua], MUL[ub]):
                        bad("add_unit", f"{desc}: a+b in unit {s.unit.name}", i)
                if abs(ia - ib) < BOUND:
                    d = a - b
                    if d.time * MUL[d.unit.name] != ia - ib:
                        bad("sub", f"{desc}: a-b = {d.time}{d.unit.name} != {ia - ib}us", i)
                if abs(ia + ib) < BOUND and abs(ia + ib + ic) < BOUND and abs(ib + ic) < BOUND:
                    l, r = (a + b) + c, a + (b + c)
                    if l.time * MUL[l.unit.name] != ia + ib + ic or not (l == r):
                        bad("assoc", f"{desc}: (a+b)+c={l} a+(b+c)={r} expected {ia + ib + ic}us", i)
                # transitivity / totality on the triple
                if (a < b and b < c) and not (a < c):
                    bad("transitive", desc, i)
                if sum([a < b, a == b, b < a]) != 1:
                    bad("trichotomy", desc, i)
                # conversions
                for tu in ("US", "MS", "S"):
                    bump("conversions")
                    if MUL[tu] > MUL[ua]:
                        try:
                            r = a.to(U[tu])
                            bad("coarsening_allowed", f"{ta}{ua}.to({tu}) returned {r} instead of raising", i)
                        except ValueError:
                            bump("coarsening_refused")
                    else:
                        r = a.to(U[tu])
                        if r.time * MUL[tu] != ia or r.unit.name != tu:
                            bad("to", f"{ta}{ua}.to({tu}) = {r.time}{r.unit.name}, expected {ia // MUL[tu]}", i)
                if a.is_invalid() != (ta == -1):
                    bad("is_invalid", f"{ta}{ua}.is_invalid() = {a.is_invalid()}", i)
                k = rng.randint(-5, 5)
                if abs(ia * k) < BOUND and (a * k).time * MUL[ua] != ia * k:
                    bad("mul", f"{ta}{ua} * {k}", i)
                # sorting a list agrees with integers
                lst = sorted([a, b, c])
                if [x.time * MUL[x.unit.name] for x in lst] != sorted([ia, ib, ic]):
                    bad("sorted", desc, i)
                if max(a, b, c).time * MUL[max(a, b, c).unit.name] != max(ia, ib, ic):
                    bad("max", desc, i)
            except Exception as e:  # an operator raising on valid operands is a violation too
                bad("raises", f"{desc}: {type(e).__name__}: {e}", i)
            if i < 3 and spec["shard"] == 0:
                samples.append({"a": f"{ta}{ua}", "b": f"{tb}{ub}", "c": f"{tc}{uc}", "a+b_us": ia + ib,
                                "a<b": ia < ib})
        self._queues(spec, rng, bad, bump, samples)
        return {"viol": viol, "counters": counters, "samples": samples, "pairs": sorted(map(list, pairs)),
                "nontrivial": counters.get("queue_histories_with_retime", 0) + counters.get("equal_pairs", 0)}

    # ------------------------------------------------------------------
    def _queues(self, spec, rng, bad, bump, samples):
        import simulator as S
        import workload as wl
        from utils import EventTime
        ET = S.EventType
        types = list(ET)
        task_types = [ET.TASK_CANCEL, ET.TASK_RELEASE, ET.TASK_PLACEMENT, ET.TASK_PREEMPT, ET.TASK_MIGRATION,
                      ET.TASK_FINISHED]
        job = wl.Job(name="J")
        import logging
        lg = logging.getLogger("c16task")
        lg.addHandler(logging.NullHandler())
        lg.propagate = False
        tasks = [wl.Task(name=f"t{k}", task_graph=f"g{k % 3}", job=job, deadline=EventTime(100, EventTime.Unit.US),
                         _logger=lg) for k in range(6)]

        def key(e):
            return (e.time.to(EventTime.Unit.US).time, common.EVENT_RANK[e.event_type.name],
                    e.task.unique_name if e.task is not None else "")

        def mk(t, ty):
            kw = {}
            if ty in task_types:
                kw["task"] = rng.choice(tasks)
                if ty in (ET.TASK_PLACEMENT, ET.TASK_MIGRATION):
                    kw["placement"] = wl.Placement.create_task_placement(task=kw["task"])
            if ty == ET.TASK_GRAPH_RELEASE:
                kw["task_graph"] = "g0"
            unit = rng.choice([EventTime.Unit.US] * 6 + [EventTime.Unit.MS])
            tt = t if unit == EventTime.Unit.US else t // 1000
            return S.Event(event_type=ty, time=EventTime(tt, unit), **kw)

        for h in range(spec["queues"]):
            q = S.EventQueue()
            ref = []
            ops = []
            retimed = False
            nops = rng.randint(3, 30)
            span = rng.choice([1, 2, 3, 5, 2000])
            for _ in range(nops):
                r = rng.random()
                if r < 0.5 or not ref:
                    e = mk(rng.randint(0, span) * (1000 if span == 2000 else 1), rng.choice(types))
                    q.add_event(e)
                    ref.append(e)
                    ops.append(("add", key(e)))
                elif r < 0.62:
                    e = rng.choice(ref)
                    q.remove_event(e)
                    ref.remove(e)
                    ops.append(("remove", key(e)))
                elif r < 0.8:
                    # in-place retime of 1..2 queued events followed by reheapify (what the
                    # simulator does when it pulls the scheduler earlier / updates a placement)
                    for e in rng.sample(ref, min(len(ref), rng.randint(1, 2))):
                        e._time = EventTime(rng.randint(0, span), EventTime.Unit.US)
                    q.reheapify()
                    retimed = True
                    ops.append(("retime+reheapify",))
                else:
                    got = q.next()
                    ops.append(("pop", key(got)))
                    kg = key(got)
                    smaller = [x for x in ref if x is not got and key(x) < kg]
                    if got not in ref:
                        bad("queue_pop_unknown", f"history {ops}", h)
                    elif smaller:
                        bad("queue_order", f"popped {kg} while {key(smaller[0])} queued; history {ops}", h)
                    if got in ref:
                        ref.remove(got)
                    if q.peek() is not None and ref and key(q.peek()) > min(map(key, ref)):
                        bad("queue_peek", f"peek {key(q.peek())} but min is {min(map(key, ref))}; history {ops}", h)
                if len(q) != len(ref):
                    bad("queue_len", f"len {len(q)} vs {len(ref)}; history {ops}", h)
            # drain
            last = None
            while len(q) > 0:
                got = q.next()
                kg = key(got)
                if last is not None and kg < last:
                    bad("queue_drain_order", f"{kg} after {last}; history {ops}", h)
                last = kg
                bump("pops")
            bump("queue_histories")
            if retimed:
                bump("queue_histories_with_retime")
            if h < 2 and spec["shard"] == 0:
                samples.append({"queue_history": [list(map(str, o)) for o in ops][:12]})

    # ------------------------------------------------------------------
    def conclude(self, results, tier, seed):
        viol = [v for r in results for v in r["viol"]]
        tot = {}
        for r in results:
            for k, v in r["counters"].items():
                tot[k] = tot.get(k, 0) + v
        pairs = {tuple(p) for r in results for p in r["pairs"]}
        inconclusive = []
        if len(pairs) < 9:
            inconclusive.append(f"only {len(pairs)} of 9 unit pairs seen")
        if tot.get("queue_histories_with_retime", 0) < (5000 if tier == "quick" else 100000):
            inconclusive.append("too few queue histories with in-place retimes")
        if tier != "replay" and tot.get("sim_pops", 0) < 3000:
            inconclusive.append(f"only {tot.get('sim_pops', 0)} pops of the simulator's own queue judged")
        if tot.get("coarsening_refused", 0) == 0 or tot.get("equal_pairs", 0) < 1000:
            inconclusive.append("coarsening refusals / equal-value pairs not reached")
        cov = {"evaluations": tot.get("tuples", 0) + tot.get("queue_histories", 0),
               "distinct_nontrivial": tot.get("queue_histories_with_retime", 0) + tot.get("equal_pairs", 0),
               "rule": "value triples drawn over us/ms/s with |us| < 2^53 (edge values 999/1000/10^6+-1, negatives, -1) and "
                       "event-queue histories of 3-30 ops over all 15 event types with many equal times; non-trivial = "
                       "a pair of equal values in (possibly) different units, or a queue history containing an in-place "
                       "retime + reheapify (counted; random draws are not deduplicated, collisions are negligible at 2^53)",
               "samples": [s for r in results for s in r["samples"]][:6],
               "unit_pairs": len(pairs), "counters": tot}
        return {"violations": viol, "coverage": cov, "inconclusive": inconclusive,
                "assumptions": ["integer model of microseconds; reference priority = (time, type value, task unique name)"]}


def get_check(pid):
    return TimeCheck()
