"""C15: Clockwork batching — full, same-model, loaded, on-time batches only; a request is
placed at most once over a run; hopeless requests are cancelled, not placed.

Decided on every ClockworkScheduler.schedule() call inside end-to-end runs of model-serving
worlds (bursty arrivals, several models with several batch-size strategies, pre-loaded models
or the policy's own load/evict decisions)."""
from .e2e_checks import E2ECheck, RULES
from .. import e2e

RULES["C15"] = ("a Clockwork world in which at least one batch with more than one member was placed",
                lambda s: s["counters"].get("cw_batches_gt1", 0) > 0, 30)


def clockwork_hook(ctx, call, pol, sim_time, workload, pools):
    if call["policy"] != "ClockworkScheduler" or call.get("shadow"):
        return
    import workload as wl
    PT = wl.Placement.PlacementType
    now = call["t"]
    ctx.count("cw_invocations")
    placed_once = ctx.__dict__.setdefault("cw_placed", {})
    groups = {}
    decided = {}
    for p in call["placements"]:
        if p.placement_type == PT.PLACE_TASK and p.is_placed():
            groups.setdefault(id(p.execution_strategy), []).append(p)
            decided[id(p.task)] = "place"
        elif p.placement_type == PT.CANCEL_TASK:
            decided[id(p.task)] = "cancel"
            ctx.count("cw_cancellations")
    # evictions decided in the same answer are applied before its placements (EVICT_PROFILE ranks before TASK_PLACEMENT at
    # one instant): a batch placed on a worker from which the same answer evicts its model runs where the model is not loaded
    evicted = {(p.worker_id, id(p.work_profile)) for p in call["placements"] if p.placement_type == PT.EVICT_WORK_PROFILE}
    reloaded = {(p.worker_id, id(p.work_profile)) for p in call["placements"] if p.placement_type == PT.LOAD_WORK_PROFILE}
    if evicted:
        ctx.count("cw_answers_with_evictions")
    extra = {}  # demand already promised on a worker by earlier batches of this answer
    for gid, ps in groups.items():
        st = ps[0].execution_strategy
        names = [p.task.unique_name for p in ps]
        ctx.count("cw_batches")
        if len(ps) > 1:
            ctx.count("cw_batches_gt1")
        if not isinstance(st, wl.BatchStrategy):
            ctx.violate("C15", "not_a_batch_strategy", f"t={now}: {names} placed with {type(st).__name__}")
            continue
        if len({id(p.task.profile) for p in ps}) != 1:
            ctx.violate("C15", "mixed_models_in_batch", f"t={now}: {[(p.task.unique_name, p.task.profile.name) for p in ps]}")
        if len(ps) != st.batch_size:
            ctx.violate("C15", "batch_size_mismatch", f"t={now}: {len(ps)} members {names} for a strategy of batch size {st.batch_size}")
        if len({(p.worker_pool_id, p.worker_id) for p in ps}) != 1 or ps[0].worker_id is None:
            ctx.violate("C15", "batch_split_over_workers", f"t={now}: {[(p.task.unique_name, p.worker_id) for p in ps]}")
            continue
        if any(p.placement_time is None or p.placement_time.time != now for p in ps):
            ctx.violate("C15", "batch_not_placed_now", f"t={now}: {[(p.task.unique_name, p.placement_time) for p in ps]}")
        dl = min(p.task.deadline.time for p in ps)
        if now + st.runtime.time > dl:
            ctx.violate("C15", "batch_misses_earliest_deadline", f"t={now}: batch {names} runtime {st.runtime.time} earliest deadline {dl}")
        # one of the model's strategies (by value)
        prof = ps[0].task.profile
        if not any(s.batch_size == st.batch_size and s.runtime == st.runtime and e2e._demand(s) == e2e._demand(st)
                   for s in prof.execution_strategies):
            ctx.violate("C15", "foreign_strategy", f"t={now}: batch strategy {st} is not a strategy of model {prof.name}")
        sw = next((x for x in ctx.live.values() if x["wid"] == ps[0].worker_id), None)
        if sw is None:
            ctx.violate("C15", "unknown_worker", f"t={now}: {ps[0].worker_id}")
            continue
        ent = sw["residents"].get(("profile", id(prof)))
        if ent is None or ent["available_at"] > now:
            ctx.violate("C15", "model_not_loaded", f"t={now}: batch {names} of model {prof.name} on {sw['name']} where it is "
                                                   f"{'not loaded' if ent is None else 'still loading until ' + str(ent['available_at'])}")
        if (ps[0].worker_id, id(prof)) in evicted and (ps[0].worker_id, id(prof)) not in reloaded:
            ctx.violate("C15", "model_evicted_in_same_answer",
                        f"t={now}: batch {names} of model {prof.name} placed on {sw['name']} by an answer that also evicts {prof.name} from it")
        req = e2e._request(st)
        prior = extra.setdefault(sw["wid"], [])
        free = e2e._shadow_free(sw)
        # weakest reading of "a worker that can hold the strategy": the state at the decision plus whatever the same answer
        # evicts there (evictions are applied before placements at one instant).  Loads decided in the same answer are NOT
        # charged: the policy does not reserve them on its scratch copy either, and a batch that then finds its memory taken
        # is retried by the simulator -- an inconsistency of the answer, but not a batch on a worker that could not hold it
        # when it was decided.
        for q in call["placements"]:
            if q.placement_type == PT.EVICT_WORK_PROFILE and q.worker_id == sw["wid"]:
                pent = sw["residents"].get(("profile", id(q.work_profile)))
                for n, i, amount in (pent or {}).get("alloc", ()):
                    free[(n, i)] = free.get((n, i), 0) + amount
        for r in prior:
            for (n, i), q in r.items():
                # 'any' demand of earlier batches: take it from the instances with most room
                left = q
                for key in sorted((k for k in free if k[0] == n), key=lambda k: -free[k]):
                    t = min(left, max(free[key], 0))
                    free[key] -= t
                    left -= t
                if left > 0:
                    free[(n, "__over__")] = free.get((n, "__over__"), 0) - left
        ok = all(sum(v for (n2, i2), v in free.items() if n2 == n) >= q for (n, i), q in req.items())
        if not ok:
            ctx.violate("C15", "batch_does_not_fit_worker", f"t={now}: batch {names} demands {req} on {sw['name']} free {e2e._shadow_free(sw)} minus earlier batches {prior}")
        extra[sw["wid"]].append(req)
        for p in ps:
            if id(p.task) in placed_once:
                ctx.violate("C15", "request_placed_twice", f"{p.task.unique_name} placed at t={placed_once[id(p.task)]} and again at t={now}")
            placed_once[id(p.task)] = now
            ctx.count("cw_placed_requests")
    for t in call.get("offered") or []:
        fastest = min(s.runtime.time for s in t.available_execution_strategies)
        if t.deadline.time < now + fastest:
            ctx.count("cw_hopeless_offered")
            d = decided.get(id(t))
            if d != "cancel":
                ctx.violate("C15", "hopeless_request_not_cancelled",
                            f"t={now}: {t.unique_name} deadline {t.deadline.time} < now + fastest {fastest}, answered with {d}")


class ClockworkCheck(E2ECheck):
    def __init__(self):
        super().__init__("C15")

    def opts(self):
        return {"csvreader": False, "decision_hooks": [clockwork_hook]}

    def mix(self, tier):
        return [("clockwork", {"max_invocations": 14}, 0.6), ("clockwork", {"max_invocations": 30, "p_preload": 1.0}, 0.2),
                ("clockwork", {"max_invocations": 14, "exec_needs_ram": True, "p_preload": 0.2}, 0.45),
                ("clockwork", {"max_invocations": 10, "tight_memory": True, "p_preload": 0.0}, 0.2)]

    def deciding_counters(self, tot):
        return [("Clockwork invocations", tot.get("cw_invocations", 0), 1500),
                ("placed batches", tot.get("cw_batches", 0), 500),
                ("placed batches with more than one member", tot.get("cw_batches_gt1", 0), 100),
                ("cancellations", tot.get("cw_cancellations", 0), 50),
                ("hopeless requests offered", tot.get("cw_hopeless_offered", 0), 30),
                ("answers that evict a model", tot.get("cw_answers_with_evictions", 0), 30)]


def get_check(pid):
    return ClockworkCheck()
